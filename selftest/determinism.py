#!/venv/bin/python
"""Determinism self-test: each seed is run twice in one process and once in a fresh interpreter;
event-log digests must be identical.  Exit 0 = deterministic, 2 = not.

usage: selftest/determinism.py [--n 100] [checks...]      (default: every check in MANIFEST.json)
A second fresh interpreter under another PYTHONHASHSEED is run as well and reported informationally:
Engine P is expected to be independent of it; Engine W pins PYTHONHASHSEED=0 in its launcher because gwf
itself iterates over a set of strings (run.clean_logs)."""
import json
import os
import subprocess
import sys

ROOT = os.path.dirname(os.path.dirname(os.path.abspath(__file__)))
sys.path.insert(0, ROOT)
CHILD = """
import sys, json
sys.path.insert(0, %r)
sys.dont_write_bytecode = True
from sim.runner import load_check, _run_one
from sim.prng import run_seed
chk = load_check(%r)
print(json.dumps([_run_one(chk, seed=run_seed(%d, %r, i))["digest"] for i in range(%d)]))
"""


def child(prop, n, vseed, hashseed):
    env = dict(os.environ, PYTHONHASHSEED=str(hashseed))
    cp = subprocess.run([sys.executable, "-B", "-c", CHILD % (ROOT, prop, vseed, prop, n)], env=env, cwd=ROOT,
                        capture_output=True, text=True)
    if cp.returncode != 0:
        raise SystemExit(f"child failed for {prop}: {cp.stderr[-2000:]}")
    return json.loads(cp.stdout.strip().splitlines()[-1])


def main():
    args = sys.argv[1:]
    n = 100
    if "--n" in args:
        i = args.index("--n")
        n = int(args[i + 1])
        del args[i:i + 2]
    props = args or [c["property_id"] for c in json.load(open(os.path.join(ROOT, "MANIFEST.json")))["checks"]]
    if os.environ.get("PYTHONHASHSEED") != "0":
        os.environ["PYTHONHASHSEED"] = "0"
        os.execv(sys.executable, [sys.executable, "-B"] + sys.argv)
    from sim.prng import run_seed
    from sim.runner import _run_one, load_check

    bad = 0
    for prop in props:
        chk = load_check(prop)
        k = max(2, n // 20) if chk.LEVEL == "fault_enumeration" else n
        a = [_run_one(chk, seed=run_seed(7, prop, i))["digest"] for i in range(k)]
        b = [_run_one(chk, seed=run_seed(7, prop, i))["digest"] for i in range(k)]
        c = child(prop, k, 7, 0)
        d = child(prop, k, 7, 987654)
        same_proc = a == b
        fresh = a == c
        other = sum(1 for x, y in zip(a, d) if x != y)
        print(f"{prop}: {k} seeds; twice in one process: {'identical' if same_proc else 'DIFFERENT'}; fresh interpreter: "
              f"{'identical' if fresh else 'DIFFERENT'}; under PYTHONHASHSEED=987654: {k - other}/{k} identical (informational)")
        if not (same_proc and fresh):
            bad += 1
            for i, (x, y, z) in enumerate(zip(a, b, c)):
                if x != y or x != z:
                    print(f"   first divergence at run index {i}")
                    break
    # the same sweep at 1 and at 16 workers gives the same digest for every run index
    import tempfile

    for prop in [p for p in props if p in ("C12", "C02", "C09")] or props[:1]:
        outs = []
        for workers in (1, 16):
            fn = tempfile.mktemp(prefix="gwfdig-", dir="/dev/shm")
            n_runs = 30 if prop in ("C09", "C17") else 600
            cp = subprocess.run([os.path.join(ROOT, "check"), prop, "--runs", str(n_runs), "--workers", str(workers),
                                 "--no-evidence", "--no-minimise", "--dump-digests", fn], cwd=ROOT, capture_output=True, text=True)
            outs.append(json.load(open(fn)) if os.path.exists(fn) else None)
            if os.path.exists(fn):
                os.remove(fn)
        same = outs[0] is not None and outs[0] == outs[1]
        print(f"{prop}: {len(outs[0] or {})} runs at 1 worker and at 16 workers: {'identical digests' if same else 'DIFFERENT'}")
        bad += not same
    return 2 if bad else 0


if __name__ == "__main__":
    sys.exit(main())
