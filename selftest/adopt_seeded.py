#!/venv/bin/python
"""Adopt sub-agent mutants from /tmp/mut into /verif/seeded/<prop>-<A|B>/ (patch rebased onto /repo HEAD),
run the property's check against each and write seeded/RESULTS.json."""
import json
import os
import shutil
import subprocess
import sys
import tempfile

ROOT = os.path.dirname(os.path.dirname(os.path.abspath(__file__)))
SRC = sys.argv[1] if len(sys.argv) > 1 else "/tmp/mut"
VARIANTS = tuple(sys.argv[2]) if len(sys.argv) > 2 else ("A", "B")


def sh(cmd, **kw):
    return subprocess.run(cmd, shell=True, capture_output=True, text=True, **kw)


def main():
    results = {}
    rp = os.path.join(ROOT, "seeded", "RESULTS.json")
    if os.path.exists(rp):
        results = json.load(open(rp))
    props = sorted(d for d in os.listdir(SRC) if d.startswith("C"))
    for p in props:
        for v in VARIANTS:
            mdir = os.path.join(SRC, p, v)
            if not os.path.exists(os.path.join(mdir, "patch.diff")):
                continue
            name = f"{p}-{v}"
            out = os.path.join(ROOT, "seeded", name)
            os.makedirs(out, exist_ok=True)
            # rebase: apply to a scratch checkout of HEAD and take git's diff
            d = tempfile.mkdtemp(prefix="gwfadopt-", dir="/dev/shm")
            try:
                sh(f"git -C /repo worktree add --detach {d}/wt HEAD -q")
                r = sh(f"cd {d}/wt && git apply {mdir}/patch.diff")
                if r.returncode != 0:
                    r = sh(f"cd {d}/wt && patch -p1 --fuzz=3 < {mdir}/patch.diff")
                    if r.returncode != 0:
                        print(name, "PATCH DOES NOT APPLY", r.stdout[-300:], r.stderr[-300:])
                        continue
                    sh(f"cd {d}/wt && find . -name '*.orig' -delete -o -name '*.rej' -delete")
                diff = sh(f"cd {d}/wt && git diff").stdout
                with open(os.path.join(out, "patch.diff"), "w") as f:
                    f.write(diff)
            finally:
                sh(f"git -C /repo worktree remove --force {d}/wt")
                shutil.rmtree(d, ignore_errors=True)
            shutil.copy(os.path.join(mdir, "demo.py"), os.path.join(out, "demo.py"))
            meta = json.load(open(os.path.join(mdir, "meta.json")))
            meta["property"] = p
            json.dump(meta, open(os.path.join(out, "meta.json"), "w"), indent=1)
            v_res = sh(f"{ROOT}/selftest/seeded.py verify {out}")
            try:
                ver = json.loads(v_res.stdout[v_res.stdout.index("{"):])
            except Exception:
                ver = {"valid": False, "raw": v_res.stdout[-300:] + v_res.stderr[-300:]}
            c = sh(f"{ROOT}/selftest/seeded.py run {out} {p}")
            caught = "exit 1" in c.stdout
            rules = sorted({ln.strip().split(":")[0] for ln in c.stdout.splitlines()
                            if ln.startswith("  ") and ":" in ln and not ln.strip().startswith("facets")})
            meta.update(property=p, verified=dict(demo_exit_clean=ver.get("demo_clean_exit"),
                                                   demo_exit_patched=ver.get("demo_patched_exit"),
                                                   baseline_tests_missing=ver.get("baseline_missing"), valid=ver.get("valid")),
                        ran=f"selftest/seeded.py verify seeded/{name}; selftest/seeded.py run seeded/{name} {p} (quick tier)",
                        caught_by=p if caught else None, rules_fired=rules)
            json.dump(meta, open(os.path.join(out, "meta.json"), "w"), indent=1)
            results[name] = dict(valid=ver.get("valid"), caught=caught, rules=rules, title=meta.get("title"))
            print(name, "valid" if ver.get("valid") else "INVALID", "CAUGHT" if caught else "MISSED", rules, flush=True)
    json.dump(results, open(os.path.join(ROOT, "seeded", "RESULTS.json"), "w"), indent=1)


if __name__ == "__main__":
    main()
