"""C09: per sampled scenario (workflow + pre-history + one `gwf run`) the interruption points of
that run are ENUMERATED: every scheduler command x {F1,F2,F3}, Ctrl-C at every seam event, a hard
kill before every seam event and after every scheduler command, an I/O error at every file
mutation.  Each fault point is executed in a fresh world that replays the pre-history."""
import errno

from .common import Violation
from .trace import Trace
from .wfgen import WModel
from .world import World
from .world_scenario import SUBMIT_EXE, WorldScenario



class FaultEnumScenario(WorldScenario):
    def _seam_list(self, w):
        """(kind, detail, is_state_file) of every seam event recorded for the last invocation."""
        out = []
        for seq, kind, kw in w.trace.events:
            if kind == "seam":
                d = kw["detail"]
                out.append((kw["kind"], d, d.endswith("-backend-tracked.json") or d.endswith("spec-hashes.json")))
        return out

    # ------------------------------------------------------------------ oracles after a faulted run
    def after_fault(self, w, res, fault_class, patterns, pre_hash_names):
        backend = self.knobs["backend"]
        facets = dict(interruption=fault_class)
        # K3: the scheduler accepted a job whose id gwf cannot know: exempt that target from "no duplicate"
        if fault_class in ("kill:K3", "reply_eof:submit", "reply_rst:submit", "reply_garbage:submit") and res.accepted:
            name, jid, deps = res.accepted[-1]
            w.k3_lost.add(name)
            w.orphan_ids.add(jid)
            latest_before, gen_before = w.before_fault
            if name in latest_before:
                w.latest[name] = latest_before[name]
                if w.local is not None and name in gen_before:
                    w.latest_gen[name] = gen_before[name]
            else:
                w.latest.pop(name, None)
        # (d) a hash is recorded only for targets whose submission was accepted
        if w.hashing:
            hashes = w.read_hashes()
            if isinstance(hashes, dict):
                ok_names = set(pre_hash_names) | {a[0] for a in res.accepted} | {a[0] for a in w.history_accepted}
                bad = sorted(set(hashes) - ok_names)
                if bad:
                    w.flag("C09", "hash_without_acceptance", f"spec hash recorded for {bad} whose submission was "
                           f"not accepted ({fault_class})", **facets)
            w.m_hash = {n: h for n, h in (hashes or {}).items()} if isinstance(hashes, dict) else {}
        if w.pending_violation:
            return
        # (a) the next invocation starts normally
        exp = w.m_status()
        r1 = w.gwf(["status"], "root")
        if r1.exception is not None or r1.exit_code != 0:
            w.pending_violation = None
            w.flag("C09", "state_file_unreadable" if "JSON" in type(r1.exception).__name__ else "next_invocation_fails",
                   f"after {fault_class}: gwf status -> exit {r1.exit_code} {type(r1.exception).__name__}: {r1.exception}",
                   **facets)
            return
        # (b) + (c) the next run neither duplicates live jobs nor forgets prerequisites
        pre_status = w.m_status()
        pre_latest = dict(w.latest)
        live = {n for n in w.model.targets if w.observable(n) in ("submitted", "running")}
        this_run = {a[0] for a in res.accepted}
        r2 = w.gwf(["run"] + patterns, "root")
        if r2.exception is not None or r2.exit_code != 0:
            w.pending_violation = None
            w.flag("C09", "next_invocation_fails",
                   f"after {fault_class}: gwf run -> exit {r2.exit_code} {type(r2.exception).__name__}: {r2.exception}",
                   **facets)
            return
        dups = sorted(a[0] for a in r2.accepted if a[0] in live)
        pending_dup = None
        if dups:
            # jobs accepted by EARLIER invocations were saved before the interrupted run even started: losing
            # them is a different (and worse) failure than losing the ids of the interrupted run itself
            earlier = sorted(d for d in dups if d not in this_run)
            pending_dup = (f"after {fault_class}: {dups} submitted again although their jobs "
                           f"{[pre_latest[d] for d in dups]} are still pending/running"
                           + (f" ({earlier} had been accepted and saved by an earlier invocation)" if earlier else ""),
                           bool(earlier))
        if pending_dup is None:
            before = w.pending_violation
            w.check_plan(r2, patterns, pre_status, pre_latest, props=("C09",))
            if w.pending_violation is not None and before is None:
                w.pending_violation.facets.update(facets)
                return
        # a further invocation: what the second run submitted must have been saved as well
        live3 = {n: w.latest[n] for n in w.model.targets if w.observable(n) in ("submitted", "running")}
        r3 = w.gwf(["run"] + patterns, "root")
        if (r3.exception is not None or r3.exit_code != 0) and pending_dup is not None:
            w.flag("C09", "duplicate_submission", pending_dup[0], lost_earlier_jobs=pending_dup[1], **facets)
            return
        if r3.exception is not None or r3.exit_code != 0:
            w.pending_violation = None
            w.flag("C09", "next_invocation_fails",
                   f"after {fault_class}: third gwf run -> exit {r3.exit_code} {type(r3.exception).__name__}: {r3.exception}",
                   **facets)
            return
        dups3 = sorted(a[0] for a in r3.accepted if a[0] in live3)
        if not dups3 and pending_dup is not None:
            w.flag("C09", "duplicate_submission", pending_dup[0], lost_earlier_jobs=pending_dup[1], **facets)
            return
        if dups3:
            w.flag("C09", "duplicate_submission",
                   f"after {fault_class}: the run after the next one submitted {dups3} again although their jobs "
                   f"{[live3[d] for d in dups3]} are still pending/running: state is no longer saved", later_run=True,
                   **facets)

    # ------------------------------------------------------------------ one world
    def _play(self, ops, trace, keep_events=False):
        """Execute an op list in a fresh world; returns (world, violation)."""
        model = WModel.from_json(self.knobs["model"])
        w = World(trace, self.knobs, self.props, model)
        with w:
            self.setup(w)
            for op in ops:
                self.apply(w, op)
                if w.pending_violation:
                    break
            viol = w.pending_violation
            self._last_world_stats(w)
        return w, viol

    def _last_world_stats(self, w):
        self.world = w

    def _gwf(self, w, op):
        fault = op.get("fault")
        if not fault or "fault_class" not in op:
            return super()._gwf(w, op)  # fault-free, or a faulted invocation of the pre-history (generic handling)
        argv = op["argv"]
        patterns = [a for a in argv[1:] if not a.startswith("-")]
        pre_hash = set((w.read_hashes() or {}).keys()) if w.hashing else set()
        live_before = {n: w.latest[n] for n in w.model.targets if w.observable(n) in ("submitted", "running")}
        if live_before:
            w.probe("faulted_runs_with_jobs_in_flight")
        w.before_fault = (dict(w.latest), dict(w.latest_gen))
        res = w.gwf(argv, "root", kill_at=fault.get("kill_at"), intr_at=fault.get("intr_at"),
                    io_fault=fault.get("io_fault"), cmd_faults=fault.get("cmd_faults", ()))
        if res.accepted:
            w.probe("faulted_runs_with_accepted_jobs")
        dups = sorted(a[0] for a in res.accepted if a[0] in live_before)
        if dups:
            w.flag("C09", "duplicate_submission",
                   f"the run interrupted by {op['fault_class']} itself submitted {dups} again although their jobs "
                   f"{[live_before[d] for d in dups]} are still pending/running", interruption=op["fault_class"],
                   during=True)
        self.after_fault(w, res, op["fault_class"], patterns, pre_hash)
        return res

    def main_op(self, w, r):
        patterns = self._patterns(w, r) if r.chance(0.3) else []
        op = {"op": "gwf", "argv": ["run"] + patterns, "cwd": "root"}
        if self.profile.get("p_nested_submit") and r.chance(self.profile["p_nested_submit"]):
            # a second SUBMITTING command in another terminal, on a disjoint part of the workflow - used only in the
            # executions in which this run is killed afterwards (gwf has no lock: two commands that both save race)
            pair = self._disjoint_pair(w, r)
            if pair:
                op["argv"] = ["run", pair[0]]
                op["nested_submit"] = pair[1]
                return op
        if self.profile.get("p_nested") and r.chance(self.profile["p_nested"]):
            op["nested"] = self._draw_nested(r)
        return op

    @staticmethod
    def _disjoint_pair(w, r):
        m = w.model
        eps = [n for n in m.endpoints() if not any(c in n for c in "*?[")]
        r_ = list(eps)
        cands = []
        for e in r_:
            ce = m.cone([e])
            if len(ce) < 2:
                continue
            for y in sorted(m.targets):
                if any(c in y for c in "*?["):
                    continue
                cy = m.cone([y])
                if not (cy & ce) and not (m.downstream(cy) & ce):
                    cands.append((e, y))
        return r.pick(cands) if cands else None

    def _kill_streak(self, w0, r, pre):
        def emit(op):
            pre.append(op)
            self.apply(w0, op)

        try:
            nothing_to_do = not w0.m_plan([])
        except Exception:
            nothing_to_do = False
        if nothing_to_do and w0.cluster is not None:
            # everything is submitted or complete: the scheduler cancels what is in flight, so that the killed
            # runs have something to (re-)submit
            for j in sorted((j for j in w0.cluster.jobs.values() if not j.foreign), key=lambda j: int(j.id)):
                if not j.foreign and j.phase != "done" and not w0.pending_violation:
                    emit({"op": "sched_cancel", "id": j.id})
        for _ in range(r.pick([1, 2, 2, 3])):
            est = self._seam_estimate(w0)
            k = (4 + r.randrange(max(1, est - 4))) if r.chance(0.8) else 1 + r.randrange(est)
            op = {"op": "gwf", "argv": ["run"] + (self._patterns(w0, r) if r.chance(0.3) else []), "cwd": "root",
                  "fault": {"kill_at": [k, r.pick(["before", "before", "after"])]}}
            pre.append(op)
            self.apply(w0, op)
            if w0.pending_violation:
                break

    def enumerate_faults(self, seams):
        faults = []
        cmd_index = {}
        n_reply = 0
        for i, (kind, detail, is_state) in enumerate(seams, start=1):
            faults.append({"kill_at": [i, "before"]})
            faults.append({"intr_at": i})
            if kind == "sock:send":
                faults.append({"kill_at": [i, "after"]})
                if "enqueue_task" in detail or "get_task_states" in detail:
                    n_reply += 1
                    what = "submit" if "enqueue_task" in detail else "query"
                    for fk in ("garbage", "eof", "rst"):
                        faults.append({"cmd_faults": [["sock", n_reply, fk]], "what": what})
            elif kind == "sock:connect":
                pass
            elif kind.startswith("cmd:"):
                exe = kind[4:]
                cmd_index[exe] = cmd_index.get(exe, 0) + 1
                for fk in ("F1", "F2", "F3", "F4"):
                    faults.append({"cmd_faults": [[exe, cmd_index[exe], fk]]})
                faults.append({"kill_at": [i, "after"]})
            else:
                faults.append({"io_fault": [i, errno.ENOSPC]})
        return faults

    # ------------------------------------------------------------------ main
    def run(self):
        if self.replaying:
            w, viol = self._play(self.script, self.trace)
            self.ops = list(self.script)
            self.violation = viol
            self.extra["evaluations"] = 1
            return self
        # 1. pre-history, generated state-aware in world #0, followed by the fault-free run (dry execution)
        r = self.rng.fork("ops")
        model0 = WModel.from_json(self.knobs["model"])
        t0 = Trace(keep=True)
        w0 = World(t0, self.knobs, self.props, model0)
        pre = []
        n_points = 0
        with w0:
            self.setup(w0)
            for op in self._init_ops(w0, self.rng.fork("init")):
                pre.append(op)
                self.apply(w0, op)
            # a streak of killed runs: what those accepted lives only in the journal.  At the start of the
            # history (everything is still to be submitted) or right before the enumerated invocation, so that
            # every interruption point of that one is tried on top of it
            streak_at = None
            if self.profile.get("p_kill_streak") and r.chance(self.profile["p_kill_streak"]):
                streak_at = r.pick(["start", "end"])
            if streak_at == "start":
                self._kill_streak(w0, r, pre)
            for _ in range(self.knobs["max_ops"] if not w0.pending_violation else 0):
                op = self._propose(w0, r)
                if op is None:
                    break
                pre.append(op)
                self.apply(w0, op)
                if w0.pending_violation:
                    break
            if not w0.pending_violation and streak_at == "end":
                self._kill_streak(w0, r, pre)
            self.world = w0
            if w0.pending_violation:
                self.ops = pre
                self.violation = w0.pending_violation
                self.trace = t0
                return self
            run_op = self.main_op(w0, r)
            mark = len(t0.events)
            self.apply(w0, run_op)
            seams = [(kw["kind"], kw["detail"], "-backend-tracked.json" in kw["detail"]
                      or "spec-hashes.json" in kw["detail"]
                      or (kw["kind"] == "sock:send" and '"close"' in kw["detail"]))
                     for seq, kind, kw in t0.events[mark:] if kind == "seam"]
            if w0.pending_violation:
                self.ops = pre + [run_op]
                self.violation = w0.pending_violation
                self.trace = t0
                return self
            n_accept = sum(1 for k, d, s in seams if k == "cmd:" + SUBMIT_EXE[self.knobs["backend"]]
                           or (k == "sock:send" and "enqueue_task" in d))
        # 2. enumerate the fault points of that run
        faults = self.enumerate_faults(seams)
        if run_op.get("nested_submit"):
            sub = [i for i, (k, d, s_) in enumerate(seams, start=1)
                   if k == "cmd:" + SUBMIT_EXE[self.knobs["backend"]] or (k == "sock:send" and "enqueue_task" in d)]
            if len(sub) >= 2:
                for f in list(faults):
                    if "kill_at" in f and (f["kill_at"][0] > sub[1] or (f["kill_at"][0] == sub[1] and f["kill_at"][1] == "after")):
                        faults.append(dict(f, with_second_submitter=True))
        self.extra["fault_points"] = len(faults)
        self.extra["evaluations"] = len(faults) + 1
        self.extra["scenarios_with_accepted_jobs"] = 1 if n_accept else 0
        digest_parts = [t0.digest()]
        classes = {}
        seen_sigs = {}
        for f in faults:
            cls = self.classify(f, seams, self.knobs["backend"])
            classes[cls] = classes.get(cls, 0) + 1
            op = dict(run_op, fault={k: v for k, v in f.items() if k != "with_second_submitter"}, fault_class=cls)
            op.pop("nested_submit", None)
            if f.get("with_second_submitter"):
                op["nested"] = [[2, ["run", run_op["nested_submit"]]]]
            tr = Trace(keep=False)
            tr.log("seed", seed=self.seed)
            w, viol = self._play(pre + [op], tr)
            digest_parts.append(tr.digest())
            for k, v in w.probes.items():
                w0.probes[k] = w0.probes.get(k, 0) + v
            for k, v in w.faults.items():
                w0.faults[k] = w0.faults.get(k, 0) + v
            if w.cluster is not None:
                for k, v in w.cluster.fired.items():
                    w0.faults["cmd_" + k] = w0.faults.get("cmd_" + k, 0) + v
            w0.n_invocations += w.n_invocations
            if viol is not None:
                key = viol.sig_key()
                if key not in seen_sigs:
                    seen_sigs[key] = dict(signature=viol.signature(), detail=viol.detail, ops=pre + [op])
                    if self.violation is None:
                        self.violation = viol
                        self.ops = pre + [op]
        self.world = w0
        if self.violation is None:
            self.ops = pre + [run_op]
        self.all_violations = list(seen_sigs.values())
        for p in digest_parts:
            self.trace.log("part", d=p)
        for k, v in classes.items():
            self.extra["class_" + k] = v
        return self

    def nontrivial(self, w):
        return bool(self.extra.get("scenarios_with_accepted_jobs")) or self.replaying

    def result(self):
        r = super().result()
        if getattr(self, "all_violations", None):
            r["violations_all"] = self.all_violations
        return r
