from checks._world_common import ASSUMPTIONS, COMPONENTS, make, simplify_knobs, simplify_op  # noqa: F401
from sim.cmd_scenario import CmdScenario

PROP = "C01"
LEVEL = "exploration"
RUNS = {"quick": 5000, "thorough": 120000}
BUDGET_S = {"quick": 50, "thorough": 840}
CHUNK = 50
RULE = ("One evaluation = one seeded history on a generated workflow (1-8 targets; container shapes str/list/nested/dict/dict-with-empty-group; path spellings plain, ./x, zz/../x, absolute; spec hashing on in half of the runs) against a simulated Slurm/SGE/LSF: initial per-file presence and ages (ties by construction on a coarse timestamp grid of 1/1024..2 s), gwf run (also with the k-th submission rejected) / gwf touch / job start / finish (clock-skewed nodes) / source modification / output deletion / single-file touch / spec edit, files dated 1970-01-01 (mtime 0), tuple and dict-view containers, interleaved with `gwf status`. Oracle at every status: for each target whose latest job is finished-ok or unknown and whose dependencies are complete, reported status == (M_stale ? shouldrun : completed) with M_stale the statement written out over the set of declared paths and the oracle's own hash records. Non-trivial = at least one file-based decision was checked; distinct = different event-log digest. Sampling, not the bounded-exhaustive enumeration the property text mentions.")
RULE += (" Histories also contain interrupted or failing gwf invocations (hard kill at a seam event, Ctrl-C, ENOSPC, a failing or "
         "unreachable scheduler command) - only the invocations after them are judged - and 1-2 % of the runs use 140-260 targets.")
PROFILE = dict(
    nontrivial_probes=['file_based_decisions'],
    sizes=[1, 2, 3, 3, 4, 4, 5, 6, 8, 20],
    backends=["slurm", "slurm", "sge", "lsf", "local"],
    granularities=[1.0 / 1024, 1.0 / 16, 1.0, 1.0, 2.0],
    weights=dict(links=0.4, faulted=0.3, status=5, run=1.5, start=2, finish=2.5, purge=0.5, acct_flush=0.5, modify_source=1.5, delete_output=1,
                 touch_file=2, set_file=2, edit_spec=1, advance=1, tick=1, touch=0.6, reject_submit=0.6),
    p_job_ok=0.85, spec_variety=True, p_hashing=0.5, p_huge=0.01, p_skew=0.5, p_no_outputs=0.15, p_epoch_zero=0.06,
)
make_scenario = make({"C01"}, PROFILE, CmdScenario)
