#!/venv/bin/python
"""Work with seeded defects (sub-agent mutants).

  seeded.py verify <dir>            confirm: patch applies to /repo HEAD, 76 baseline tests still pass,
                                    demo exits 0 without and non-zero with the patch (scratch worktree)
  seeded.py run <dir> [check args]  apply the patch to a scratch copy of /repo/src and run the checks of
                                    the property it breaks (or those given) against it via VERIF_GWF_SRC
Scratch copies live under /dev/shm and are removed afterwards.
"""
import json
import os
import shutil
import subprocess
import sys
import tempfile

ROOT = os.path.dirname(os.path.dirname(os.path.abspath(__file__)))
BASE = json.load(open("/root/.vp/BASELINE.json"))
STABLE = set(BASE["stable_pass"])


def sh(cmd, **kw):
    return subprocess.run(cmd, shell=True, capture_output=True, text=True, **kw)


def scratch_copy(patch):
    d = tempfile.mkdtemp(prefix="gwfmut-", dir="/dev/shm")
    sh(f"git -C /repo archive HEAD | tar -x -C {d}")
    # strict application only: `patch --fuzz` once placed a hunk into the wrong function without complaint
    r = sh(f"cd {d} && git init -q . && git apply --verbose {patch}")
    if r.returncode != 0:
        shutil.rmtree(d)
        raise SystemExit(f"patch does not apply:\n{r.stderr}")
    return d


def passed_tests(d):
    junit = os.path.join(d, "junit.xml")
    sh(f"cd {d} && PYTHONPATH={d}/src /venv/bin/python -m pytest -q -p no:cacheprovider --timeout=900 "
       f"--continue-on-collection-errors --junitxml={junit}", timeout=1200)
    import xml.etree.ElementTree as ET

    ok = set()
    for tc in ET.parse(junit).getroot().iter("testcase"):
        if not list(tc):
            ok.add(f"{tc.get('classname')}::{tc.get('name')}")
    return ok


def verify(mdir):
    patch = os.path.join(mdir, "patch.diff")
    demo = os.path.join(mdir, "demo.py")
    clean = tempfile.mkdtemp(prefix="gwfclean-", dir="/dev/shm")
    sh(f"git -C /repo archive HEAD | tar -x -C {clean}")
    res = {}
    try:
        r0 = sh(f"PYTHONPATH={clean}/src /venv/bin/python {demo}", timeout=300, cwd=clean)
        res["demo_clean_exit"] = r0.returncode
        d = scratch_copy(patch)
        try:
            ok = passed_tests(d)
            res["baseline_missing"] = sorted(STABLE - ok)
            r1 = sh(f"PYTHONPATH={d}/src /venv/bin/python {demo}", timeout=300, cwd=d)
            res["demo_patched_exit"] = r1.returncode
            res["demo_patched_msg"] = (r1.stdout + r1.stderr)[-400:]
        finally:
            shutil.rmtree(d, ignore_errors=True)
    finally:
        shutil.rmtree(clean, ignore_errors=True)
    res["valid"] = res["demo_clean_exit"] == 0 and not res["baseline_missing"] and res["demo_patched_exit"] != 0
    print(json.dumps(res, indent=1))
    return 0 if res["valid"] else 1


def run(mdir, extra):
    patch = os.path.join(mdir, "patch.diff")
    meta = json.load(open(os.path.join(mdir, "meta.json")))
    props = [a for a in extra if a.startswith("C")] or [meta["property"]]
    rest = [a for a in extra if not a.startswith("C")]
    d = scratch_copy(patch)
    rc = 0
    try:
        for p in props:
            env = dict(os.environ, VERIF_GWF_SRC=f"{d}/src")
            cp = subprocess.run([os.path.join(ROOT, "check"), p, "--no-evidence"] + rest, env=env, cwd=ROOT,
                                capture_output=True, text=True)
            tail = "\n".join((cp.stdout + cp.stderr).strip().splitlines()[-6:])
            print(f"--- {os.path.basename(os.path.dirname(mdir + '/'))}/{os.path.basename(mdir)} vs {p}: exit {cp.returncode}\n{tail}")
            rc = max(rc, cp.returncode)
    finally:
        shutil.rmtree(d, ignore_errors=True)
    return rc


if __name__ == "__main__":
    cmd, mdir = sys.argv[1], os.path.abspath(sys.argv[2])
    sys.exit(verify(mdir) if cmd == "verify" else run(mdir, sys.argv[3:]))
