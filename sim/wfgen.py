"""Workflow model, seeded generator and renderer to a real workflow.py.

The model is the generator's own data structure (the reference for every oracle); gwf only ever
sees the rendered file.  Only valid workflows are generated (validation is C04: not claimed).
"""
import hashlib
import json
import os

SHAPES = ["list", "list", "str", "nested", "dict", "dict_empty", "tuple", "dict_values"]
STYLES = ["plain", "plain", "plain", "dot", "dotdot", "abs", "pathobj"]


class TModel:
    def __init__(self, name):
        self.name = name
        self.inputs = []  # canonical project-relative paths
        self.outputs = []
        self.in_shape = "list"
        self.out_shape = "list"
        self.style = {}  # path -> spelling style
        self.options = {}  # per-target keyword options
        self.tpl_options = None  # not None => created through target_from_template
        self.protect = []  # [(path, style)]
        self.version = 0
        self.spec_extra = ""
        self.spec_body = None  # explicit spec text (C10); None => the default one-liner
        self.wd = ""  # working directory relative to the project ("" or a sub-directory; template targets only)
        self.protect_late = False  # protect entries added to the returned target after its creation

    def spec(self):
        if self.spec_body is not None:
            return self.spec_body
        if self.spec_extra.endswith("<NONL>"):  # a spec whose last line has no newline
            return f"echo {self.name} version {self.version}{self.spec_extra[:-6]}"
        return f"echo {self.name} version {self.version}{self.spec_extra}\n"

    def spec_sha1(self):
        return hashlib.sha1(self.spec().encode("utf-8")).hexdigest()

    def to_json(self):
        return dict(name=self.name, inputs=self.inputs, outputs=self.outputs, in_shape=self.in_shape,
                    out_shape=self.out_shape, style=self.style, options=self.options, tpl_options=self.tpl_options,
                    protect=self.protect, version=self.version, spec_extra=self.spec_extra, spec_body=self.spec_body, wd=self.wd, protect_late=self.protect_late)

    @classmethod
    def from_json(cls, d):
        t = cls(d["name"])
        t.inputs, t.outputs = list(d["inputs"]), list(d["outputs"])
        t.in_shape, t.out_shape = d["in_shape"], d["out_shape"]
        t.style = dict(d["style"])
        t.options = dict(d["options"])
        t.tpl_options = d["tpl_options"]
        t.protect = [tuple(p) for p in d["protect"]]
        t.version = d["version"]
        t.spec_extra = d.get("spec_extra", "")
        t.spec_body = d.get("spec_body")
        t.wd = d.get("wd", "")
        t.protect_late = d.get("protect_late", False)
        return t


class WModel:
    def __init__(self):
        self.targets = {}  # name -> TModel, definition order
        self.sources = []
        self.defaults = {}
        self.counter = 0

    # ---- M_graph ---------------------------------------------------------------------------
    def producer(self):
        return {o: t.name for t in self.targets.values() for o in t.outputs}

    def deps_map(self):
        """name -> sorted direct dependencies; cached until invalidate() (World.write_workflow calls it
        after every change of the target set)."""
        key = (id(self.targets), len(self.targets))
        c = getattr(self, "_deps_cache", None)
        if c is None or c[0] != key:
            prod = self.producer()
            c = (key, {n: sorted({prod[i] for i in t.inputs if i in prod}) for n, t in self.targets.items()})
            self._deps_cache = c
        return c[1]

    def invalidate(self):
        self._deps_cache = None

    def deps(self, name):
        return list(self.deps_map()[name])

    def dependents(self, name):
        dm = self.deps_map()
        return sorted(n for n in self.targets if name in dm[n])

    def endpoints(self):
        used = set()
        for n in self.targets:
            used.update(self.deps(n))
        return sorted(n for n in self.targets if n not in used)

    def topo(self):
        order, seen = [], set()

        def visit(n):
            if n in seen:
                return
            seen.add(n)
            for d in self.deps(n):
                visit(d)
            order.append(n)

        for n in sorted(self.targets):
            visit(n)
        return order

    def cone(self, names):
        seen = set()

        def visit(n):
            if n in seen:
                return
            seen.add(n)
            for d in self.deps(n):
                visit(d)

        for n in names:
            visit(n)
        return seen

    def downstream(self, names):
        out = set(names)
        dm = self.deps_map()
        changed = True
        while changed:
            changed = False
            for n in self.targets:
                if n not in out and any(d in out for d in dm[n]):
                    out.add(n)
                    changed = True
        return out

    def all_files(self):
        fs = list(self.sources)
        for t in self.targets.values():
            fs.extend(t.outputs)
        return fs

    def to_json(self):
        return dict(targets=[t.to_json() for t in self.targets.values()], sources=self.sources,
                    defaults=self.defaults, counter=self.counter)

    @classmethod
    def from_json(cls, d):
        m = cls()
        for td in d["targets"]:
            t = TModel.from_json(td)
            m.targets[t.name] = t
        m.sources = list(d["sources"])
        m.defaults = dict(d["defaults"])
        m.counter = d["counter"]
        return m

    def clone(self):
        return WModel.from_json(json.loads(json.dumps(self.to_json())))


class _Raw:
    """A Python expression rendered verbatim (repr() gives the source text)."""

    def __init__(self, text):
        self.text = text

    def __repr__(self):
        return self.text


# ---- rendering -------------------------------------------------------------------------------
def spell(path, style, proj, wd=""):
    if style not in ("abs", "abs_dot") and wd:
        path = os.path.relpath(path, wd)
    if style == "dot":
        return "./" + path
    if style == "dotdot":
        return "zz/../" + path
    if style == "pathobj":  # an os.PathLike instead of a string
        return _Raw("pathlib.Path(%r)" % path)
    if style == "abs":
        return proj + "/" + path
    if style == "abs_dot":  # absolute but not normalised (protect sets only)
        return proj + "/./" + path
    return path


def shape(paths, kind):
    """Python literal (as a Python object) for a path list in the given container shape."""
    if kind == "str" and len(paths) == 1:
        return paths[0]
    if kind == "tuple":
        return tuple(paths)
    if kind == "dict_values":
        return _Raw("{%s}.values()" % ", ".join("%r: %r" % ("v%d" % i, p) for i, p in enumerate(paths)))
    if kind == "nested":
        if not paths:
            return [[]]
        if len(paths) == 1:
            return [[paths[0]]]
        return [[paths[0]], list(paths[1:])]
    if kind in ("dict", "dict_empty"):
        d = {}
        if paths:
            d["k0"] = paths[0]
            if len(paths) > 1:
                d["k1"] = list(paths[1:])
        if kind == "dict_empty":
            d["kz"] = []
        return d
    return list(paths)


def render(model: WModel, proj: str) -> str:
    out = ["import os", "import pathlib", "from gwf import Workflow, AnonymousTarget", "",
           f"gwf = Workflow(defaults={model.defaults!r})", ""]
    for t in model.targets.values():
        ins = shape([spell(p, t.style.get(p, "plain"), proj, t.wd) for p in t.inputs], t.in_shape)
        outs = shape([spell(p, t.style.get("out:" + p, t.style.get(p, "plain")), proj, t.wd) for p in t.outputs],
                     t.out_shape)
        prot = [spell(p, s, proj, t.wd) for p, s in t.protect]
        if t.tpl_options is None and t.protect_late and prot:
            kw = "".join(f", {k}={v!r}" for k, v in t.options.items())
            var = "t_" + t.name.replace(".", "_")
            out.append(f"{var} = gwf.target({t.name!r}, inputs={ins!r}, outputs={outs!r}{kw}) << {t.spec()!r}")
            for p in prot:
                out.append(f"{var}.protect.add({p!r})")
        elif t.tpl_options is None:
            kw = "".join(f", {k}={v!r}" for k, v in t.options.items())
            out.append(f"gwf.target({t.name!r}, inputs={ins!r}, outputs={outs!r}, protect={prot!r}{kw}) << {t.spec()!r}")
        else:
            kw = "".join(f", {k}={v!r}" for k, v in t.options.items())
            out.append(f"def tpl_{t.name.replace('.', '_')}():")
            out.append(f"    return AnonymousTarget(inputs={ins!r}, outputs={outs!r}, options={t.tpl_options!r}, "
                       f"working_dir={'gwf.working_dir' if not t.wd else 'os.path.join(gwf.working_dir, %r)' % t.wd}, "
                       f"protect={prot!r}, spec={t.spec()!r})")
            out.append(f"gwf.target_from_template({t.name!r}, tpl_{t.name.replace('.', '_')}(){kw})")
    return "\n".join(out) + "\n"


# ---- generation ------------------------------------------------------------------------------
def gen_model(rng, n_targets, option_pool=None, p_no_outputs=0.1, subdir=False, protect=False, templates=True,
              exotic_shapes=True, chainy=0.0):
    m = WModel()
    n_src = rng.pick([1, 2, 2, 3, 4])
    for i in range(n_src):
        stem = "da\u0308tä ü" if rng.chance(0.08) else "s"  # one decomposed (NFD) and one precomposed (NFC) a-umlaut, a blank
        m.sources.append((("d/" if subdir and rng.chance(0.3) else "") + f"{stem}{i}.txt"))
    produced = []
    for i in range(n_targets):
        t = new_target(m, rng, produced, option_pool, p_no_outputs, subdir, protect, templates, exotic_shapes,
                       chainy=chainy)
        produced.extend(t.outputs)
    return m


def new_target(m, rng, produced=None, option_pool=None, p_no_outputs=0.1, subdir=False, protect=False,
               templates=True, exotic_shapes=True, chainy=0.0):
    if produced is None:
        produced = [o for t in m.targets.values() for o in t.outputs]
    name = rng.pick(["T", "T", "Al", "Zed", "m.x", "_q"]) + str(m.counter)
    m.counter += 1
    t = TModel(name)
    n_out = 0 if rng.chance(p_no_outputs) else rng.pick([1, 1, 1, 2, 2, 3])
    for j in range(n_out):
        # now and then a name with a decomposed accent (what a glob on macOS returns): byte-exact on Linux
        stem_o = "re\u0301s" if (m.counter * 7 + j) % 23 == 5 else "f"
        t.outputs.append((("d/" if subdir and rng.chance(0.3) else "") + f"{stem_o}{m.counter}_{j}.out"))
    pool = list(m.sources) + list(produced)
    n_in = rng.pick([0, 1, 1, 2, 2, 3])
    if chainy and produced:
        # long chains: mostly the file made just before, now and then a file from anywhere earlier (a diamond
        # whose two arms are far apart)
        n_in = 1 if rng.chance(0.12) else 0
        if rng.chance(chainy):
            t.inputs.append(produced[-1])
    for _ in range(n_in):
        p = rng.pick(pool)
        if p not in t.inputs:
            t.inputs.append(p)
    shapes = SHAPES if exotic_shapes else ["list"]
    t.in_shape = rng.pick(shapes)
    t.out_shape = rng.pick(shapes)
    for p in t.inputs:
        t.style[p] = rng.pick(STYLES)
    for p in t.outputs:
        t.style["out:" + p] = rng.pick(STYLES)
    if option_pool:
        for k, vals in option_pool.items():
            if rng.chance(0.25):
                t.options[k] = rng.pick(vals)
    if templates and rng.chance(0.2):
        t.tpl_options = {}
        if subdir and rng.chance(0.4):
            t.wd = "d"
        if option_pool:
            for k, vals in option_pool.items():
                if rng.chance(0.25):
                    t.tpl_options[k] = rng.pick(vals)
    if protect and t.outputs and rng.chance(0.4):
        for p in t.outputs:
            if rng.chance(0.5):
                t.protect.append((p, rng.pick(["plain", "plain", "dot", "dotdot", "abs", "abs_dot"])))
        t.protect_late = rng.chance(0.25)
    if protect and pool and rng.chance(0.3):
        # protect entries that name files of OTHER targets or sources: legal, and without any effect on what
        # `gwf clean` may remove (a target protects only its own outputs)
        for _ in range(rng.pick([1, 1, 2])):
            p = rng.pick(pool)
            if p not in [q for q, s_ in t.protect]:
                t.protect.append((p, rng.pick(["plain", "plain", "dot", "abs"])))
    m.targets[name] = t
    return t
