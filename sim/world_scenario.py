"""Engine W scenarios: seeded generation of histories (gwf invocations, scheduler transitions,
perturbations, faults), concrete name-based op list, replay without PRNG."""
import json
import os

from . import fsx
from .cluster import FAIL_KINDS, LSF_UNPINNED, PHASE_CODES, SGE_UNPINNED, SLURM_UNPINNED
from .common import HarnessError, Violation
from .prng import Rng
from .trace import Trace
from .wfgen import WModel, gen_model, new_target
from .world import World

SUBMIT_EXE = {"slurm": "sbatch", "sge": "qsub", "lsf": "bsub", "local": "enqueue_task"}
K3_CLASSES = ("kill:K3", "reply_eof:submit", "reply_rst:submit", "reply_garbage:submit")

STATUS_NAMES = ["shouldrun", "submitted", "running", "completed", "failed", "cancelled"]

OPTION_POOLS = {
    "slurm": {"cores": [1, 2, 8], "memory": ["1g", "4g"], "walltime": ["00:10:00"], "queue": ["normal", None, "hidden"],
              "account": ["acc", None], "bogus_option": [1, None]},
    "sge": {"cores": [1, 2, 4], "memory": ["8g", "2g"], "walltime": ["00:10:00"], "queue": ["q", None],
            "bogus_option": [1]},
    "lsf": {"cores": [1, 2], "memory": ["4GB", "8GB"], "queue": ["normal", "long", None], "bogus_option": [1]},
    "local": {"bogus_option": [1]},
}


def draw_knobs(rng: Rng, profile: dict):
    kr = rng.fork("knobs")
    if os.environ.get("VERIF_DEPTH") == "thorough":
        # deeper exploration: half of the runs use longer histories and larger workflows
        profile = dict(profile)
        base_len = profile.get("lengths", [6, 10, 14, 20, 30])
        base_sz = profile.get("sizes", [1, 2, 3, 3, 4, 4, 5, 6, 8])
        profile["lengths"] = list(base_len) + [2 * x for x in base_len if x]
        profile["sizes"] = list(base_sz) + [s + 4 for s in base_sz if s >= 3]
    backend = kr.pick(profile.get("backends", ["slurm", "slurm", "sge", "lsf"]))
    g = kr.pick(profile.get("granularities", [1.0 / 1024, 1.0 / 16, 1.0, 2.0]))
    kn = dict(
        backend=backend,
        cores=kr.pick([1, 2, 2, 3]),
        granularity=g,
        tick_per_op=kr.pick([0, 1, 1, 3, 20]),
        n_targets=kr.pick(profile.get("sizes", [1, 2, 3, 3, 4, 4, 5, 6, 8])),
        max_ops=kr.pick(profile.get("lengths", [6, 10, 14, 20, 30])),
        hashing=kr.chance(profile.get("p_hashing", 0.4)),
        clean_logs=kr.chance(0.7),
        accounting=kr.chance(0.7),
        acct_lag=kr.chance(0.5),
        sacct_batch=kr.pick([None, None, 1, 2, 3]),
        kill_invalid_depend=kr.chance(0.3),
        first_id=kr.pick([1, 7, 100, 1000, 99998]),
        cwd=kr.pick(profile.get("cwds", ["root", "root", "sub", "elsewhere"])),
        log_mode=kr.pick([None, None, "full", "merged", "none"]) if backend == "slurm" else None,
        skew=kr.chance(profile.get("p_skew", 0.0)),
        hash_seed=kr.randrange(1 << 30),
        verbose_flag=kr.pick([None, None, None, "debug", "info"]),
        cluster_name="hpc1" if (backend == "slurm" and kr.chance(0.12)) else None,
    )
    if not kn["accounting"]:
        kn["acct_lag"] = False
    if profile.get("p_instant_start") and kr.chance(profile["p_instant_start"]):
        kn["instant_start"] = True
    if profile.get("p_huge") and kr.chance(profile["p_huge"]):
        # a few runs use workflows of hundreds of targets in long chains with far-apart diamonds (caches,
        # memo tables and anything else whose behaviour depends on size); short histories keep them affordable
        kn["n_targets"] = kr.pick([140, 200, 260])
        kn["chainy"] = 0.9
        kn["max_ops"] = kr.pick([3, 5, 8])
    kn.update(profile.get("force_knobs", {}))
    return kn


class WorldScenario:
    def __init__(self, props, profile, seed=None, replay=None, keep_trace=True):
        self.props = props
        self.profile = profile
        self.replaying = replay is not None
        if self.replaying:
            self.knobs = dict(replay["knobs"])
            self.script = list(replay["ops"])
            self.seed = replay.get("seed")
            self.rng = None
            self.model = WModel.from_json(self.knobs["model"])
        else:
            self.seed = seed
            self.rng = Rng(seed)
            self.knobs = draw_knobs(self.rng, profile)
            mr = self.rng.fork("model")
            self.model = gen_model(mr, self.knobs["n_targets"], OPTION_POOLS.get(self.knobs["backend"]),
                                   p_no_outputs=profile.get("p_no_outputs", 0.1), subdir=True,
                                   protect=profile.get("protect", False),
                                   exotic_shapes=profile.get("exotic_shapes", True),
                                   chainy=self.knobs.get("chainy", 0.0))
            if profile.get("spec_variety"):
                # spec texts with carriage returns, blank and indented lines, trailing blanks, no final newline
                sr = self.rng.fork("specs")
                for t in self.model.targets.values():
                    t.spec_extra = sr.pick(["", "", "", "\r\necho second line\r", "\n\n# trailing comment", " \t ",
                                            "\n  indented line", "\r", "\necho no newline at the end<NONL>"])
            self.knobs["model"] = self.model.to_json()
            self.script = None
        self.ops = []
        self.trace = Trace(keep=keep_trace)
        self.trace.log("seed", seed=self.seed, knobs={k: v for k, v in self.knobs.items() if k != "model"})
        self.violation = None
        self.extra = {}

    # ------------------------------------------------------------------ classification of a fault point
    @staticmethod
    def classify(fault, seams, backend):
        """Interruption class used in violation signatures (stable under minimisation).
        seams: (kind, detail, is_state_file) of the seam events of the invocation."""
        if "cmd_faults" in fault:
            exe, k, kind = fault["cmd_faults"][0][:3]
            if exe == "sock":
                return f"reply_{kind}:{fault.get('what', 'query')}"
            what = "submit" if exe == SUBMIT_EXE[backend] else "query"
            return f"cmd_fail:{kind}:{what}"
        if "intr_at" in fault:
            k = fault["intr_at"]
            if k - 1 >= len(seams):
                return "none"
            return "ctrl_c_in_save" if seams[k - 1][2] else "ctrl_c"
        if "io_fault" in fault:
            k = fault["io_fault"][0]
            if k - 1 >= len(seams):
                return "none"
            return "io_error_in_save" if seams[k - 1][2] else "io_error"
        if "kill_at" in fault:
            k, when = fault["kill_at"]
            if k - 1 >= len(seams):
                return "none"
            kind, detail, is_state = seams[k - 1]
            if when == "after":
                if kind == "sock:send":
                    if is_state:
                        return "kill:K2"
                    return "kill:K3" if "enqueue_task" in detail else "kill:after_query"
                return "kill:K3" if kind == "cmd:" + SUBMIT_EXE[backend] else "kill:after_query"
            if ".journal" in detail and kind in ("fs:open_w", "fs:write"):
                # between the scheduler's acceptance and the durable record of it: like K3, the id of
                # that one job cannot be known to any later invocation
                return "kill:K3"
            if is_state:
                return "kill:K2"
            return "kill:K1"
        return "none"

    @staticmethod
    def seam_triples(seam_log):
        return [(k, d, "-backend-tracked.json" in d or "spec-hashes.json" in d or (k == "sock:send" and '"close"' in d))
                for k, d in seam_log]

    @staticmethod
    def _draw_nested(r):
        """Somebody looks at the project from a second terminal while the run is submitting: a complete read-only
        invocation before the i-th submission."""
        return [[1 + r.randrange(4), r.pick([["status"], ["status"], ["run", "--dry-run"], ["status", "-f", "summary"]])]]

    def _seam_estimate(self, w):
        """About as many seam events as a `gwf run` would have right now: the queries, three per submission
        (command, journal open, journal write) and the final saves."""
        try:
            n_sub = len(w.m_plan([]))
        except Exception:
            n_sub = len(w.model.targets)
        return 8 + 3 * n_sub

    def _draw_fault(self, w, r, cmd):
        """One fault for a `gwf <cmd>` invocation of a random history: where it lands is drawn relative to the
        number of seam events of the latest complete run."""
        import errno

        k = 1 + r.randrange(self._seam_estimate(w) if cmd == "run" else 8)
        x = r.random()
        if x < 0.35:
            return {"kill_at": [k, "before"]}
        if x < 0.55:
            return {"kill_at": [k, "after"]}
        if x < 0.65:
            return {"intr_at": k}
        if x < 0.72:
            return {"io_fault": [k, errno.ENOSPC]}
        if w.cluster is not None:
            exes = {"slurm": ["sbatch", "squeue", "sacct"], "sge": ["qsub", "qstat"], "lsf": ["bsub", "bjobs"]}[w.cluster.flavour]
            exe = r.pick(exes)
            kind = r.pick(["F1", "F2", "F3", "F4"])
            if r.chance(0.4):  # the scheduler is unreachable for the whole invocation
                return {"cmd_faults": [[exe, i, kind] for i in (1, 2, 3, 4)]}
            return {"cmd_faults": [[exe, 1 + r.randrange(3), kind]]}
        return {"cmd_faults": [["sock", 1 + r.randrange(4), r.pick(["garbage", "eof", "rst"])]]}

    # ------------------------------------------------------------------ generation helpers
    def _patterns(self, w, r):
        names = list(w.model.targets)
        if not names or r.chance(0.55):
            return []
        out = []
        for _ in range(r.pick([1, 1, 2])):
            x = r.random()
            n = r.pick(names)
            if x < 0.55:
                out.append(n)
            elif x < 0.65:
                out.append(n[:-1] + "[" + n[-1] + "#]")  # fnmatch character class, no * or ?
            elif x < 0.8:
                out.append(n[:1] + "*")
            elif x < 0.9:
                out.append("*" + n[-1:])
            else:
                out.append("nomatch*")
        return out

    def _init_ops(self, w, r):
        """Initial file state: per file presence and age (per FILE, never per job)."""
        ops = []
        ages = [0, 1, 1, 2, 3, 5, 9]
        for f in w.model.sources:
            ops.append({"op": "set_file", "f": f, "age": r.pick(ages)})
        for t in w.model.targets.values():
            for o in t.outputs:
                if r.chance(self.profile.get("p_init_outputs", 0.55)):
                    op = {"op": "set_file", "f": o, "age": r.pick(ages)}
                    if r.chance(self.profile.get("p_epoch_zero", 0.0)):
                        op["epoch_zero"] = True  # a file dated 1970-01-01 00:00:00 (extracted archive, reset clock)
                    ops.append(op)
                    if self.profile.get("p_link_output") and r.chance(self.profile["p_link_output"]):
                        ops.append({"op": "link_output", "f": o})
        return ops

    def _propose(self, w, r):
        pf = self.profile
        wt = pf["weights"]
        cands = []
        cwd = self.knobs["cwd"]

        def add(key, op, scale=1.0):
            if wt.get(key, 0) > 0:
                cands.append((wt[key] * scale, op))

        add("status", {"op": "gwf", "argv": ["status"], "cwd": cwd})
        add("status_filtered", {"op": "status_filtered", "cwd": cwd, "patterns": self._patterns(w, r),
                                "status": [r.pick(STATUS_NAMES) for _ in range(r.pick([0, 1, 1, 2]))],
                                "endpoints": r.chance(0.3), "format": r.pick(["default", "default", "summary"])})
        run_op = {"op": "gwf", "argv": ["run"] + self._patterns(w, r), "cwd": cwd}
        if pf.get("p_nested") and r.chance(pf["p_nested"]):
            run_op["nested"] = self._draw_nested(r)
        add("run", run_op)
        add("dry_run", {"op": "gwf", "argv": ["run", "--dry-run"] + self._patterns(w, r), "cwd": cwd})
        if wt.get("status_concurrent", 0) > 0:
            add("status_concurrent", {"op": "gwf", "argv": ["status"], "cwd": cwd,
                                      "nested_run": ["run"] + self._patterns(w, r)})
        add("triple", {"op": "triple", "patterns": self._patterns(w, r), "cwd": cwd})
        add("gwf_cancel", {"op": "gwf", "argv": ["cancel", "-f"] + self._patterns(w, r), "cwd": cwd})
        if wt.get("faulted", 0) > 0:
            # an interrupted or failing invocation in the middle of the history; a second one right after the
            # first is made more likely (state that only the journal of a killed run holds is the fragile one)
            fcmd = r.weighted([(6, "run"), (2, "status"), (1, "cancel")])
            fargv = {"run": ["run"], "status": ["status"], "cancel": ["cancel", "-f"]}[fcmd] + \
                (self._patterns(w, r) if fcmd != "status" else [])
            after_fault = w.last_gwf_faulted
            fop = {"op": "gwf", "argv": fargv, "cwd": cwd, "fault": self._draw_fault(w, r, fcmd)}
            if fcmd == "run" and pf.get("p_nested") and r.chance(pf["p_nested"]):
                fop["nested"] = self._draw_nested(r)
            add("faulted", fop, 4.0 if after_fault else 1.0)
        if w.cluster is not None:
            cl = w.cluster
            ours = [j for j in cl.jobs.values() if not j.foreign]
            for j in sorted(ours, key=lambda j: int(j.id)):
                if j.phase == "pending" and cl.dep_state(j) == "ok":
                    add("start", {"op": "start", "id": j.id}, 1.0)
                if j.phase == "running":
                    how = "ok" if r.chance(pf.get("p_job_ok", 0.6)) else r.pick(FAIL_KINDS)
                    op = {"op": "finish", "id": j.id, "how": how}
                    if self.knobs.get("skew") and r.chance(0.5):
                        op["skew"] = r.pick([-3, -1, 1, 3]) * self.knobs["granularity"]
                    if how != "ok" and r.chance(0.3):
                        op["partial"] = True
                    add("finish", op, 1.0)
                if j.phase != "done":
                    add("sched_cancel", {"op": "sched_cancel", "id": j.id}, 1.0)
                    codes = PHASE_CODES[cl.flavour].get(j.phase, [])
                    if len(codes) > 1:
                        add("set_code", {"op": "set_code", "id": j.id, "code": r.pick(codes)}, 1.0)
                    unp = {"slurm": SLURM_UNPINNED, "sge": SGE_UNPINNED, "lsf": LSF_UNPINNED}[cl.flavour]
                    add("set_unpinned", {"op": "set_code", "id": j.id, "code": r.pick(unp), "unpinned": True}, 1.0)
                if j.phase == "done" and cl.flavour == "slurm":
                    alt = [k for k in ("failed", "timeout", "oom", "nodefail", "bootfail", "deadline", "preempted")]
                    if j.result in FAIL_KINDS:
                        add("set_code", {"op": "set_code", "id": j.id, "code": PHASE_CODES["slurm"][r.pick(alt)][0]}, 0.5)
            if any(j.phase == "done" and j.live for j in ours):
                add("purge", {"op": "purge"})
            if cl.flavour == "slurm" and cl.accounting and cl.acct_lag:
                add("acct_flush", {"op": "acct_flush"})
            if ours:
                base = r.pick(ours).id
                fid = r.pick([base + "0", base[:-1] or "9", "1" + base, str(int(base) + 100000)])
                if cl.flavour == "slurm" and r.chance(0.25):
                    fid = base + r.pick(["_1", "_[2-5]", "+0"])  # somebody else's array task / heterogeneous job component
                if fid not in cl.jobs:
                    add("foreign", {"op": "foreign", "id": fid,
                                    "code": r.pick(PHASE_CODES[cl.flavour]["running"] + PHASE_CODES[cl.flavour]["pending"])})
        if w.local is not None:
            for jb in sorted(w.local.running_jobs(), key=lambda jb: jb["tid"]):
                how = "ok" if r.chance(pf.get("p_job_ok", 0.6)) else "failed"
                add("finish", {"op": "finish", "id": jb["tid"], "how": how}, 1.0)
            if w.local.pool.loop.next_timer() is not None or w.local.doomed():
                add("finish", {"op": "pool_settle"}, 0.5)
            add("pool_restart", {"op": "pool_restart"})
            from .pool_scenario import GARBAGE

            cid = r.pick(["x1", "x2"])
            add("bad_client", {"op": "bad_client", "conn": cid, "what": "garbage", "i": r.randrange(len(GARBAGE))})
            add("bad_client", {"op": "bad_client", "conn": cid, "what": r.pick(["abort", "eof", "enqueue_abort",
                                                                               "cancel_unknown", "reconnect", "stall"])}, 0.6)
        files_out = [o for t in w.model.targets.values() for o in t.outputs]
        if w.model.sources:
            add("modify_source", {"op": "modify_source", "f": r.pick(w.model.sources)})
        if files_out:
            add("delete_output", {"op": "delete_output", "f": r.pick(files_out)})
            add("touch_file", {"op": "touch_file", "f": r.pick(files_out + w.model.sources)})
            sf = {"op": "set_file", "f": r.pick(files_out + w.model.sources), "age": r.pick([0, 1, 2, 3])}
            if r.chance(pf.get("p_epoch_zero", 0.0)):
                sf["epoch_zero"] = True
            add("set_file", sf)
        if files_out and wt.get("links", 0) > 0:
            lk = {"op": "link_output", "f": r.pick(files_out), "dst_age": r.pick([0, 1, 2, 5, 9]),
                  "link_age": r.pick([0, 0, 3, 12])}
            if r.chance(0.3):
                lk["dangling"] = True
            add("links", lk)
            multi = [t for t in w.model.targets.values() if len(t.outputs) > 1]
            if multi:
                t_ = r.pick(multi)
                a, b = r.pick(t_.outputs), r.pick(t_.outputs)
                if a != b:  # two outputs of ONE target (across targets a job would write into another target's file)
                    add("links", {"op": "hardlink_output", "f": a, "to": b}, 0.5)
            if w.model.sources:
                add("links", {"op": "link_source", "f": r.pick(w.model.sources), "dst_age": r.pick([0, 1, 2, 5, 9]),
                              "link_age": r.pick([0, 0, 3, 12])}, 0.5)
        if w.model.targets:
            add("edit_spec", {"op": "edit_spec", "t": r.pick(list(w.model.targets))})
        add("advance", {"op": "advance", "dt": r.pick([1, 1, 2, 5]) * self.knobs["granularity"]})
        add("tick", {"op": "advance", "dt": 1.0 / 1024})
        if self.ops and self.ops[-1].get("op") == "gwf" and wt.get("repeat_last", 0.5) > 0:
            last = {k: v for k, v in self.ops[-1].items() if k not in ("interleave",)}
            cands.append((wt.get("repeat_last", 0.5) * (3.0 if last["argv"][:1] == ["cancel"] else 1.0), last))
        if not cands:
            return None
        return r.weighted(cands)

    # ------------------------------------------------------------------ execution
    def apply(self, w: World, op):
        kind = op["op"]
        w.trace.log("op", **op)
        if kind == "gwf":
            if op.get("nested"):
                w.nested_at = {int(i): list(a) for i, a in op["nested"]}
            try:
                self._gwf(w, op)
            finally:
                w.nested_at = None
        elif kind == "triple":
            self._triple(w, op)
        elif kind == "status_filtered":
            self._status_filtered(w, op)
        elif kind == "start":
            j = w.cluster.jobs.get(op["id"])
            if j is not None and j.phase == "pending" and w.cluster.dep_state(j) == "ok":
                self._on_job_start(w, j)
                w.cluster.start(j)
        elif kind == "finish" and w.local is not None:
            jb = w.local.jobs.get((w.local.generation, op["id"]))
            if jb is not None and jb["proc"] is not None and jb["proc"].alive:
                class J:
                    pass

                j = J()
                j.id, j.name = op["id"], jb["name"]
                w.run_job_effects(j, op["how"], 0.0, False)
                w.local.finish(op["id"], op["how"])
        elif kind == "bad_client":
            if w.local is not None:
                self._bad_client(w, op)
        elif kind == "pool_settle":
            if w.local is not None:
                w.local.settle_timers()
        elif kind == "pool_restart":
            if w.local is not None:
                w.advance(2.0)  # stopping and starting the workers takes time
                w.local.start_pool()
                from .sock import SocketProxy

                SocketProxy.hub = w.local
                w.probe("pool_restarts")
        elif kind in ("start", "sched_cancel", "purge", "acct_flush", "set_code", "foreign") and w.cluster is None:
            pass
        elif kind == "finish":
            j = w.cluster.jobs.get(op["id"])
            if j is not None and j.phase == "running":
                w.cluster.finish(j, op["how"])
                w.run_job_effects(j, op["how"], op.get("skew", 0.0), op.get("partial", False))
        elif kind == "sched_cancel":
            j = w.cluster.jobs.get(op["id"])
            if j is not None and j.phase != "done":
                w.cluster._finish(j, "cancelled")
        elif kind == "purge":
            w.cluster.purge()
        elif kind == "acct_flush":
            w.cluster.acct_flush()
        elif kind == "set_code":
            j = w.cluster.jobs.get(op["id"])
            if j is not None and j.live and (op.get("unpinned") or op["code"] in
                                              sum((v for k, v in PHASE_CODES[w.cluster.flavour].items()), [])):
                ok_phase = j.phase if j.phase != "done" else j.result
                if op.get("unpinned"):
                    if j.phase != "done":
                        w.cluster.set_code(j, op["code"], True)
                        w.probe("unpinned_codes")
                elif op["code"] in PHASE_CODES[w.cluster.flavour].get(ok_phase, []) or (
                        j.phase == "done" and j.result in FAIL_KINDS):
                    w.cluster.set_code(j, op["code"], False)
                    w.probe("state_code_" + op["code"])
        elif kind == "foreign":
            if op["id"] not in w.cluster.jobs:
                w.cluster.foreign_job(op["id"], op["code"])
                w.probe("foreign_jobs")
        elif kind == "modify_source":
            if op["f"] in w.model.sources:
                w.fs.world_write(w.path(op["f"]), b"modified\n")
        elif kind == "delete_output":
            w.fs.world_remove(w.path(op["f"]))
        elif kind == "touch_file":
            if os.path.exists(w.path(op["f"])):
                w.fs.stamp(w.path(op["f"]))
        elif kind == "set_file":
            p = w.path(op["f"])
            if not os.path.exists(p):
                with fsx._real_open(p, "wb") as f:
                    f.write(b"initial\n")
            g = self.knobs["granularity"]
            t0 = (1_000_000.0 // g) * g
            w.fs.world_touch_at(p, 0.0 if op.get("epoch_zero") else t0 - op["age"] * g)
            if op.get("epoch_zero"):
                w.probe("epoch_zero_files")
        elif kind in ("link_output", "link_source"):
            # the declared output (or a source file) becomes a symbolic link to a data file that belongs to nobody:
            # results linked in from a data volume.  The link's own time stamp differs from the destination's,
            # and the link may dangle.
            p = w.path(op["f"])
            os.makedirs(w.path("shared"), exist_ok=True)
            dst = w.path("shared/data_" + op["f"].replace("/", "_"))
            if kind == "link_source" and op["f"] not in w.model.sources:
                return
            if not os.path.islink(p):
                g = self.knobs["granularity"]
                t0 = (1_000_000.0 // g) * g
                if op.get("dangling"):
                    if os.path.exists(dst):
                        fsx._real_remove(dst)
                else:
                    with fsx._real_open(dst, "wb") as f:
                        f.write(b"precious shared data\n")
                    w.fs.world_touch_at(dst, (t0 - op["dst_age"] * g) if "dst_age" in op else 1_000_000.0 - 8.0)
                if os.path.lexists(p):
                    fsx._real_remove(p)
                os.symlink(dst, p)
                if "link_age" in op:
                    ns = int(round((t0 - op["link_age"] * g) * 1e9))
                    os.utime(p, ns=(ns, ns), follow_symlinks=False)
                w.probe("dangling_links" if op.get("dangling") else "symlinked_outputs" if kind == "link_output" else "symlinked_sources")
        elif kind == "hardlink_output":
            # two declared outputs become two names of one file (ln a b / cp -l)
            src, dst = w.path(op["to"]), w.path(op["f"])
            if os.path.exists(src) and not os.path.islink(src):
                if os.path.lexists(dst):
                    fsx._real_remove(dst)
                os.link(src, dst)
                w.probe("hardlinked_outputs")
        elif kind == "edit_spec":
            t = w.model.targets.get(op["t"])
            if t is not None:
                t.version += 1
                w.write_workflow()
        elif kind == "advance":
            w.advance(op["dt"])
        else:
            self.apply_extra(w, op)

    def apply_extra(self, w, op):
        raise HarnessError(f"unknown op {op['op']}")

    def _bad_client(self, w, op):
        """Another connection to the same pool misbehaves while gwf is the healthy client."""
        from .pool import L
        from .pool_scenario import GARBAGE

        pool = w.local.pool
        c = pool.conns.get(op["conn"])
        what = op["what"]
        if what == "reconnect" or c is None or not c.usable:
            c = pool.connect(op["conn"], True)
            if what == "reconnect":
                return
        c.tainted = True
        if what == "garbage":
            data = GARBAGE[op["i"]]
            c.send(data)
            if not data.endswith(b"\n"):
                c.send_eof()
            w.fault("garbage_request")
        elif what == "abort":
            c.abort()
            w.fault("client_abort")
        elif what == "eof":
            c.send_eof()
            w.fault("client_eof")
        elif what == "enqueue_abort":
            c.send(L.encode("enqueue_task", name="foreign_task", script="foreign-script", working_dir=w.proj,
                            time_limit=None, deps=[]).encode())
            c.abort()
            w.fault("disconnect_before_reply")
        elif what == "cancel_unknown":
            c.send(L.encode("cancel_task", tid=424242).encode())
            w.fault("cancel_unknown_id")
        elif what == "stall":
            # stays connected, keeps asking, never reads: its socket buffers fill up
            c.reading = False
            for _ in range(120):
                c.send(L.encode("get_task_states").encode())
            w.fault("stalled_reader")
        w.local.pump()

    def _on_job_start(self, w, j):
        pass

    # ---- gwf commands with their oracles -------------------------------------------------------
    def _gwf_faulted(self, w, op):
        """An invocation of the history that is interrupted or whose scheduler commands fail.  No plan or table
        oracle applies to it; the reference models are brought up to date with what the scheduler accepted, and
        the invocations that follow are checked as usual."""
        argv, fault = op["argv"], op["fault"]
        backend = self.knobs["backend"]
        hashes0 = w.read_hashes() if w.hashing else None
        pre_hash = set(hashes0) if isinstance(hashes0, dict) else set()
        live_before = {n: w.latest[n] for n in w.model.targets if w.observable(n) in ("submitted", "running", "live")}
        latest_before, gen_before = dict(w.latest), dict(w.latest_gen)
        was_faulted = w.last_gwf_faulted
        res = w.gwf(argv, op.get("cwd", "root"), kill_at=fault.get("kill_at"), intr_at=fault.get("intr_at"),
                    io_fault=fault.get("io_fault"), cmd_faults=[tuple(f[:3]) for f in fault.get("cmd_faults", ())])
        w.probe("faulted_invocations")
        if was_faulted:
            w.probe("consecutive_faulted_invocations")
        f2 = dict(fault)
        if fault.get("cmd_faults") and fault["cmd_faults"][0][0] == "sock":
            sends = [d for k, d in w.seam_log if k == "sock:send" and ("enqueue_task" in d or "get_task_states" in d)]
            kk = fault["cmd_faults"][0][1]
            f2["what"] = "submit" if kk <= len(sends) and "enqueue_task" in sends[kk - 1] else "query"
        cls = WorldScenario.classify(f2, self.seam_triples(w.seam_log), backend)
        if "kill_at" in fault and not res.killed:
            cls = "none"
        if res.accepted:
            w.probe("faulted_invocations_with_accepted_jobs")
        if live_before and argv[0] == "run":
            w.probe("faulted_runs_with_jobs_in_flight")
        # the scheduler accepted a job whose id gwf cannot know: that target is exempt from "no duplicate"
        if cls in K3_CLASSES and res.accepted:
            name, jid, deps = res.accepted[-1]
            w.k3_lost.add(name)
            w.orphan_ids.add(jid)
            w.probe("unknowable_job_ids")
            # back to the job gwf knew before this invocation (not to an earlier job it could not know either)
            if name in latest_before:
                w.latest[name] = latest_before[name]
                if w.local is not None and name in gen_before:
                    w.latest_gen[name] = gen_before[name]
            else:
                w.latest.pop(name, None)
        if argv[0] == "status" and (res.accepted or res.cancel_requests):
            w.flag("C05", "preview_touched_scheduler", f"gwf status interrupted by {cls} submitted {res.accepted} / "
                   f"cancelled {res.cancel_requests}", interruption=cls)
        dups = sorted(a[0] for a in res.accepted if a[0] in live_before)
        if dups:
            for p in ("C02", "C05", "C08", "C09"):
                w.flag(p, "duplicate_submission",
                       f"gwf {' '.join(argv)} interrupted by {cls} submitted {dups} again although their jobs "
                       f"{[live_before[d] for d in dups]} are still pending/running", interruption=cls, during=True)
        if w.hashing:
            hashes = w.read_hashes()
            if isinstance(hashes, dict):
                bad = sorted(set(hashes) - pre_hash - {a[0] for a in res.accepted})
                if bad and argv[0] == "run":
                    for p in ("C09", "C18"):
                        w.flag(p, "hash_without_acceptance", f"spec hash recorded for {bad} whose submission was not "
                               f"accepted ({cls})", interruption=cls)
                # which of the accepted targets got their record before the interruption is not pinned down
                w.m_hash = dict(hashes)
            elif hashes is None:
                w.m_hash = {}
        return res

    def _status_with_concurrent_run(self, w, op):
        """A `gwf run` of a second terminal starts and finishes while `gwf status` is waiting for the scheduler's
        answer.  The status command is a preview: what the run recorded must still be recorded when it ends."""
        mid = {}

        def hook(kind, detail=None):
            query = kind.startswith("cmd:") or (kind == "sock:send" and "get_task_states" in (detail or ""))
            if query and not mid and w.nest_depth == 0:
                mid["started"] = True
                r = w.nested_gwf(op["nested_run"], readonly=False)
                w.update_hash_model(r, False)
                mid["res"] = r
                mid["snap"] = w.snapshot()

        w.between_seams = hook
        try:
            res = w.gwf(["status"], op.get("cwd", "root"))
        finally:
            w.between_seams = None
        self._exit_ok(w, res, ["status"])
        if "snap" not in mid or w.pending_violation:
            return res
        w.probe("status_with_concurrent_run")
        if mid["res"].accepted:
            w.probe("status_with_concurrent_submitting_run")
        after = w.snapshot()
        for rel in sorted(set(mid["snap"]) | set(after)):
            if rel.startswith(".gwf/") and rel.endswith(".json") and mid["snap"].get(rel) != after.get(rel):
                a, b = mid["snap"].get(rel), after.get(rel)
                if a is None and b is not None and b[0] == "json" and b[1] in ({}, None):
                    continue
                for p in ("C05", "C08"):
                    w.flag(p, "preview_changed_state", f"gwf status, during which a `gwf {' '.join(op['nested_run'])}` of a second "
                           f"terminal ran, changed {rel}: {a} -> {b}", file=rel.split("/")[-1], concurrent_run=True)
        w.check_tracked_file()
        return res

    def _gwf(self, w, op):
        argv = op["argv"]
        cmd = argv[0]
        if op.get("fault"):
            return self._gwf_faulted(w, op)
        if cmd == "status" and len(argv) == 1 and op.get("nested_run"):
            return self._status_with_concurrent_run(w, op)
        if cmd == "status" and len(argv) == 1:
            before = w.snapshot() if "C05" in w.props else None
            jb = len(w.cluster.journal) if w.cluster else 0
            exp = w.m_status()
            res = w.gwf(argv, op.get("cwd", "root"))
            self._exit_ok(w, res, argv)
            w.check_status(res, expected=exp)
            w.check_tracked_file()
            if before is not None:
                self._purity(w, before, jb, "status")
            return res
        if cmd == "run":
            dry = "--dry-run" in argv or "-d" in argv
            patterns = [a for a in argv[1:] if not a.startswith("-")]
            pre_status = w.m_status()
            pre_latest = dict(w.latest)
            before = w.snapshot() if ("C05" in w.props and dry) else None
            jb = len(w.cluster.journal) if w.cluster else 0
            self._install_interleave(w, op)
            try:
                res = w.gwf(argv, op.get("cwd", "root"))
            finally:
                w.between_seams = None
            self._exit_ok(w, res, argv)
            if res.exit_code == 0:
                if dry:
                    would = w.parse_would_submit(res.output)
                    plan = w.m_plan(patterns, pre_status)
                    if None not in pre_status.values() and "live" not in pre_status.values() \
                            and sorted(would) != sorted(plan):
                        w.flag("C05", "dry_run_set", f"dry-run {patterns} lists {sorted(would)}, plan {sorted(plan)}")
                        w.flag("C02", "dry_run_set", f"dry-run {patterns} lists {sorted(would)}, plan {sorted(plan)}")
                    if res.accepted:
                        w.flag("C05", "dry_run_submitted", f"dry-run submitted {res.accepted}")
                    if before is not None:
                        self._purity(w, before, jb, "dry-run")
                else:
                    w.check_plan(res, patterns, pre_status, pre_latest)
                    w.update_hash_model(res, dry)
                    w.check_tracked_file()
            return res
        res = w.gwf(argv, op.get("cwd", "root"), stdin=op.get("stdin"))
        return res

    def _install_interleave(self, w, op):
        """Scheduler transitions between the seam events of a running `gwf run` (a job may start or
        finish while gwf is still submitting).  Generated once, recorded in the op, replayed verbatim."""
        p = self.profile.get("interleave", 0)
        if not p:
            return
        if w.cluster is None:
            return self._install_interleave_local(w, op, p)
        if self.replaying or "interleave" in op:
            plan = {}
            for k, t in op.get("interleave", []):
                plan.setdefault(k, []).append(t)

            def hook(kind, detail=None):
                for t in plan.get(w.seam_count, []):
                    self._transition(w, t)
        else:
            r = self.rng.fork(("interleave", len(self.ops)))
            op["interleave"] = []

            def hook(kind, detail=None):
                # only once gwf has read the queue (all queries precede the first submission): a
                # transition before that legitimately changes what gwf sees and hence the plan
                if kind not in ("cmd:sbatch", "cmd:qsub", "cmd:bsub"):
                    return
                while r.chance(p):
                    cl = w.cluster
                    cands = []
                    for j in sorted((j for j in cl.jobs.values() if not j.foreign), key=lambda j: int(j.id)):
                        if j.foreign:
                            continue
                        if j.phase == "pending" and cl.dep_state(j) == "ok":
                            cands.append({"op": "start", "id": j.id})
                        elif j.phase == "running":
                            cands.append({"op": "finish", "id": j.id,
                                          "how": "ok" if r.chance(self.profile.get("p_job_ok", 0.6)) else r.pick(FAIL_KINDS)})
                    if not cands:
                        return
                    t = r.pick(cands)
                    op["interleave"].append([w.seam_count, t])
                    self._transition(w, t)
                    w.probe("transitions_inside_gwf_run")

        w.between_seams = hook

    def _install_interleave_local(self, w, op, p):
        """Local pool: a job may finish (or fail) between two enqueue_task requests of one gwf run."""
        if self.replaying or "interleave" in op:
            plan = {}
            for k, t in op.get("interleave", []):
                plan.setdefault(k, []).append(t)

            def hook(kind, detail=None):
                for t in plan.get(w.seam_count, []):
                    self.apply(w, dict(t))
        else:
            r = self.rng.fork(("interleave", len(self.ops)))
            op["interleave"] = []

            def hook(kind, detail=None):
                # only once gwf has read the task states: between two enqueue_task requests
                if kind != "sock:send" or "enqueue_task" not in (detail or ""):
                    return
                while r.chance(p):
                    run = sorted(w.local.running_jobs(), key=lambda jb: jb["tid"])
                    if not run:
                        return
                    t = {"op": "finish", "id": r.pick(run)["tid"],
                         "how": "ok" if r.chance(self.profile.get("p_job_ok", 0.6)) else "failed"}
                    op["interleave"].append([w.seam_count, t])
                    self.apply(w, dict(t))
                    w.probe("transitions_inside_gwf_run")

        w.between_seams = hook

    def _transition(self, w, t):
        j = w.cluster.jobs.get(t["id"])
        if j is None:
            return
        if t["op"] == "start" and j.phase == "pending" and w.cluster.dep_state(j) == "ok":
            w.cluster.start(j)
        elif t["op"] == "finish" and j.phase == "running":
            w.cluster.finish(j, t["how"])
            w.run_job_effects(j, t["how"])

    def _exit_ok(self, w, res, argv):
        if res.exit_code != 0 and res.exception is None and not res.faulted:
            for p in sorted(w.props):
                w.flag(p, "command_failed", f"gwf {' '.join(argv)} exited {res.exit_code}: {res.output[-300:]}",
                       command=argv[0])

    def _purity(self, w, before, journal_before, what):
        after = w.snapshot()
        if w.cluster is not None and len(w.cluster.journal) != journal_before:
            w.flag("C05", "preview_touched_scheduler", f"{what} caused {w.cluster.journal[journal_before:]}")
        for rel in sorted(set(before) | set(after)):
            a, b = before.get(rel), after.get(rel)
            if a == b:
                continue
            if rel.startswith(".gwf/") and rel.endswith(".json"):
                if a is None and b is not None and b[0] == "json" and b[1] in ({}, None):
                    continue  # first creation of an empty state file
                w.flag("C05", "preview_changed_state", f"{what} changed {rel}: {a} -> {b}", file=rel.split('/')[-1])
            else:
                w.flag("C05", "preview_changed_files", f"{what} changed {rel}")
        w.probe("purity_checks")

    def _triple(self, w, op):
        patterns = op["patterns"]
        cwd = op.get("cwd", "root")
        pre_status = w.m_status()
        r1 = self._gwf(w, {"op": "gwf", "argv": ["status"], "cwd": cwd})
        if w.pending_violation or r1 is None or r1.exit_code != 0:
            return
        rows = w.parse_status_table(r1.stdout or r1.output)
        cone = w.model.cone(w.select(patterns))
        from_status = sorted(n for n in cone if rows.get(n) in ("shouldrun", "failed", "cancelled"))
        r2 = self._gwf(w, {"op": "gwf", "argv": ["run", "--dry-run"] + patterns, "cwd": cwd})
        if w.pending_violation or r2.exit_code != 0:
            return
        would = sorted(w.parse_would_submit(r2.output))
        r3 = self._gwf(w, {"op": "gwf", "argv": ["run"] + patterns, "cwd": cwd})
        if w.pending_violation or r3.exit_code != 0:
            return
        ran = sorted(a[0] for a in r3.accepted)
        w.probe("status_dryrun_run_triples")
        if not (from_status == would == ran):
            w.flag("C05", "three_way_disagreement",
                   f"selection {patterns}: status says {from_status}, dry-run says {would}, run submitted {ran}")
        for n in cone:
            if rows.get(n) in ("submitted", "running", "completed") and n in ran:
                w.flag("C05", "submitted_although_shown", f"{n} shown {rows[n]} but submitted")

    def _status_filtered(self, w, op):
        argv = ["status"]
        for s in op["status"]:
            argv += ["-s", s]
        if op["endpoints"]:
            argv.append("--endpoints")
        argv += ["-f", op["format"]]
        argv += op["patterns"]
        full = w.m_status()
        if None in full.values() or "live" in full.values():
            return
        res = w.gwf(argv, op.get("cwd", "root"))
        self._exit_ok(w, res, argv)
        if res.exit_code != 0:
            return
        names = set(full)
        if op["status"]:
            names &= {n for n in full if full[n] in op["status"]}
        if op["patterns"]:
            names &= set(w.select(op["patterns"]))
        if op["endpoints"]:
            names &= set(w.model.endpoints())
        want = {n: full[n] for n in names}
        if not names:
            w.probe("empty_restrictions")
        w.probe("filtered_status_checks")
        if op["format"] == "default":
            got = w.parse_status_table(res.stdout or res.output)
            if got != want:
                w.flag("C05", "filtered_table", f"gwf {' '.join(argv)} shows {got}, restriction is {want}")
        else:
            counts = {}
            for ln in (res.stdout or res.output).splitlines():
                parts = ln.split()
                if len(parts) == 3 and parts[1] in STATUS_NAMES and parts[2].isdigit():
                    counts[parts[1]] = int(parts[2])
            wantc = {s: sum(1 for v in want.values() if v == s) for s in STATUS_NAMES}
            if counts != wantc:
                w.flag("C05", "filtered_summary", f"gwf {' '.join(argv)} counts {counts}, restriction has {wantc}")

    # ------------------------------------------------------------------ main loop
    def run(self):
        w = World(self.trace, self.knobs, self.props, self.model)
        self.world = w
        try:
            with w:
                self.setup(w)
                if self.replaying:
                    for op in self.script:
                        self.ops.append(op)
                        self.apply(w, op)
                        if w.pending_violation:
                            break
                else:
                    r = self.rng.fork("ops")
                    for op in self._init_ops(w, self.rng.fork("init")):
                        self.ops.append(op)
                        self.apply(w, op)
                    self.generate(w, r)
                if not w.pending_violation:
                    self.finale(w)
                if w.pending_violation:
                    raise w.pending_violation
        except Violation as v:
            self.violation = v
        return self

    def setup(self, w):
        for f in w.model.sources:
            p = w.path(f)
            if not os.path.exists(p):
                with fsx._real_open(p, "wb") as fh:
                    fh.write(b"source\n")
                w.fs.world_touch_at(p, 1_000_000.0 - 16.0)

    def generate(self, w, r):
        for _ in range(self.knobs["max_ops"]):
            op = self._propose(w, r)
            if op is None:
                break
            self.ops.append(op)
            self.apply(w, op)
            if w.pending_violation:
                break

    def finale(self, w):
        pass

    def nontrivial(self, w):
        names = self.profile.get("nontrivial_probes")
        if names:
            return any(w.probes.get(n, 0) > 0 for n in names)
        return w.n_invocations > 0

    def result(self):
        w = self.world
        return dict(
            seed=self.seed,
            knobs=self.knobs,
            ops=self.ops,
            digest=self.trace.digest(),
            violation=self.violation.signature() if self.violation else None,
            detail=self.violation.detail if self.violation else None,
            probes=dict(w.probes),
            faults=dict(w.faults, **({f"cmd_{k}": v for k, v in w.cluster.fired.items()} if w.cluster else {})),
            sim_seconds=w.sim_seconds,
            iterations=w.n_invocations,
            abstract_states=len(w.states_seen),
            schedule=json.dumps([(o["op"], o.get("argv", o.get("id", o.get("f", o.get("t"))))) for o in self.ops],
                                default=str),
            nontrivial=self.nontrivial(w),
            extra=dict(self.extra, gwf_invocations=w.n_invocations),
        )
