"""One integer decides everything: seed derivation and labelled sub-streams."""
import hashlib
import random


def H(*parts) -> int:
    """Stable 63-bit hash of the parts (independent of PYTHONHASHSEED)."""
    h = hashlib.sha256()
    for p in parts:
        h.update(repr(p).encode("utf-8"))
        h.update(b"\x00")
    return int.from_bytes(h.digest()[:8], "big") >> 1


class Rng(random.Random):
    """random.Random with labelled forks so that draws in one stream never shift another."""

    def __init__(self, seed):
        self._seed_value = seed
        super().__init__(seed)

    def fork(self, label) -> "Rng":
        return Rng(H(self._seed_value, "fork", label))

    def chance(self, p) -> bool:
        return self.random() < p

    def pick(self, seq):
        return seq[self.randrange(len(seq))]

    def weighted(self, pairs):
        """pairs: list of (weight, value); weights >= 0, at least one > 0."""
        total = sum(w for w, _ in pairs)
        x = self.random() * total
        acc = 0.0
        for w, v in pairs:
            acc += w
            if x < acc:
                return v
        return pairs[-1][1]


def run_seed(verif_seed: int, prop: str, i: int) -> int:
    return H("run", verif_seed, prop, i)
