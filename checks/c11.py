from checks._pool_common import ASSUMPTIONS, COMPONENTS, make, simplify_knobs, simplify_op  # noqa: F401

PROP = "C11"
RUN_WALL_S = 5  # wall-clock limit of one simulated run (a run that never returns is a violation)
LEVEL = "exploration"
RUNS = {"quick": 60000, "thorough": 2000000}
BUDGET_S = {"quick": 45, "thorough": 840}
CHUNK = 400
RULE = ('One evaluation = one seeded run of the real local-pool Scheduler on the virtual-time loop: a generated task DAG (1-12 tasks, 0-3 dependencies each incl. late submissions on finished/failed/cancelled tasks, cores 1-4) driven by a seeded sequence of external events (process exit with any code incl. signals, connection-lost, cancel requests at any await point, timer expiry, k loop iterations in between). Oracle: at every spawn all dependencies exited 0 and are published COMPLETED; at the end a task with a failed/killed/cancelled dependency was never spawned and ended in the class of one of its bad dependencies. Non-trivial = at least one task with dependencies was decided; distinct = different event-log digest.')
make_scenario = make({"C11"}, "pool")
