"""C06: convergence and minimal re-run.

pre-history (arbitrary, then drained so that no job is pending/running) -> gwf run -> the simulated
scheduler executes every submitted job successfully in a seeded legal order -> `gwf status` must show
every cone target with outputs completed and `gwf run` must submit only output-less targets ->
rounds of one perturbation (modify one source / delete one output) -> the next run must submit exactly
the affected targets, their transitive dependents and the output-less targets."""
from .cluster import FAIL_KINDS
from .world_scenario import WorldScenario


class ConvergeScenario(WorldScenario):
    # ------------------------------------------------------------------ helpers shared by gen and replay
    def in_flight(self, w):
        if w.cluster is not None:
            return [j for j in w.cluster.jobs.values() if not j.foreign and j.phase != "done"]
        return [jb for k, jb in w.local.jobs.items() if k[0] == w.local.generation
                and w.local.phase(k) != "done"]

    def premise(self, w):
        """No job pending/running and every job accepted by the last run finished successfully."""
        if self.in_flight(w):
            return False
        for jid in getattr(w, "since_run", []):
            if w.job_phase(jid) != "done" or w.job_result(jid) != "ok":
                return False
        return True

    def emit(self, w, op):
        self.ops.append(op)
        self.apply(w, op)

    def drain_ops(self, w, r, all_ok, bound):
        """Seeded legal execution order: any startable job may start, any running job may finish."""
        steps = 0
        while steps < bound and not w.pending_violation:
            steps += 1
            cands = []
            if w.cluster is not None:
                cl = w.cluster
                for j in sorted((j for j in cl.jobs.values() if not j.foreign), key=lambda j: int(j.id)):
                    if j.foreign or j.phase == "done":
                        continue
                    if j.phase == "pending":
                        ds = cl.dep_state(j)
                        if ds == "ok":
                            cands.append({"op": "start", "id": j.id})
                        elif ds == "never":
                            if all_ok:
                                w.flag("C06", "job_can_never_start", f"job {j.id} ({j.name}) waits for {j.deps} for ever")
                                return False
                            cands.append({"op": "sched_cancel", "id": j.id})
                    else:
                        how = "ok" if (all_ok or r.chance(0.6)) else r.pick(FAIL_KINDS)
                        cands.append({"op": "finish", "id": j.id, "how": how})
            else:
                run = sorted(w.local.running_jobs(), key=lambda jb: jb["tid"])
                for jb in run:
                    how = "ok" if (all_ok or r.chance(0.6)) else "failed"
                    cands.append({"op": "finish", "id": jb["tid"], "how": how})
                if not run and self.in_flight(w):
                    cands.append({"op": "pool_settle"})
            if not cands:
                break
            self.emit(w, r.pick(cands))
            if r.chance(0.5):
                self.emit(w, {"op": "advance", "dt": 1.0 / 1024})
        if self.in_flight(w) and not w.pending_violation:
            if all_ok:
                w.flag("C06", "drain_not_finished", f"{len(self.in_flight(w))} jobs still in flight after {bound} steps",
                       liveness=True)
            return False
        return True

    # ------------------------------------------------------------------ ops
    def apply_extra(self, w, op):
        kind = op["op"]
        if kind == "expect_converged":
            return self._expect_converged(w, op)
        if kind == "perturb":
            return self._perturb(w, op)
        if kind == "expect_rerun":
            return self._expect_rerun(w, op)
        return super().apply_extra(w, op)

    def _gwf(self, w, op):
        res = super()._gwf(w, op)
        if op["argv"][0] == "run" and "--dry-run" not in op["argv"] and res is not None:
            w.since_run = [a[1] for a in res.accepted]
        return res

    def _expect_converged(self, w, op):
        w.converged = False
        if not self.premise(w):
            return
        patterns = op["patterns"]
        cone = w.model.cone(w.select(patterns))
        if w.cluster is not None and w.cluster.flavour == "slurm" and w.cluster.acct_lag:
            w.cluster.acct_flush()
        exp = w.m_status()
        r1 = w.gwf(["status"], "root")
        if r1.exit_code != 0 or r1.exception is not None:
            return
        rows = w.parse_status_table(r1.stdout or r1.output)
        w.probe("convergence_checks")
        for n in sorted(cone):
            if w.model.targets[n].outputs and rows.get(n) != "completed":
                stale, why = w.m_stale(n)
                w.flag("C06", "not_converged", f"after a fully successful run {n} is {rows.get(n)} ({why}); "
                       f"model says {exp.get(n)}", reason=why)
                return
        r2 = w.gwf(["run"] + patterns, "root")
        if r2.exit_code != 0 or r2.exception is not None:
            return
        w.update_hash_model(r2, False)
        w.since_run = [a[1] for a in r2.accepted]
        got = sorted(a[0] for a in r2.accepted)
        want = sorted(n for n in cone if not w.model.targets[n].outputs)
        if got != want:
            w.flag("C06", "second_run_not_noop", f"second run submitted {got}; only output-less targets {want} expected")
            return
        w.converged = not patterns or cone == set(w.model.targets)

    def _perturb(self, w, op):
        w.expect = None
        if not getattr(w, "converged", False) or not self.premise(w):
            return
        g = self.knobs["granularity"]
        w.advance(2 * g + 1.0 / 1024)
        if op["kind"] == "modify_source" and op["f"] in w.model.sources:
            w.fs.world_write(w.path(op["f"]), b"modified again\n")
            seeds = {n for n, t in w.model.targets.items() if op["f"] in t.inputs}
        elif op["kind"] == "delete_output":
            prod = w.model.producer()
            if op["f"] not in prod:
                return
            w.fs.world_remove(w.path(op["f"]))
            seeds = {prod[op["f"]]}
        else:
            return
        w.expect = w.model.downstream(seeds) | {n for n, t in w.model.targets.items() if not t.outputs}
        w.probe("perturbations")

    def _expect_rerun(self, w, op):
        if getattr(w, "expect", None) is None:
            return
        want = sorted(w.expect)
        w.expect = None
        w.converged = False
        r = w.gwf(["run"], "root")
        if r.exit_code != 0 or r.exception is not None:
            return
        w.update_hash_model(r, False)
        w.since_run = [a[1] for a in r.accepted]
        got = sorted(a[0] for a in r.accepted)
        w.probe("minimal_rerun_checks")
        if got != want:
            w.flag("C06", "rerun_set", f"after one perturbation the run submitted {got}; exactly {want} expected",
                   missing=bool(set(want) - set(got)), extra=bool(set(got) - set(want)))

    # ------------------------------------------------------------------ generation
    def generate(self, w, r):
        n = len(w.model.targets)
        bound = 50 + 20 * max(1, n) * 3
        for _ in range(self.knobs["max_ops"]):
            op = self._propose(w, r)
            if op is None:
                break
            self.emit(w, op)
            if w.pending_violation:
                return
        if not self.drain_ops(w, r, all_ok=False, bound=bound) or w.pending_violation:
            return
        patterns = self._patterns(w, r) if r.chance(0.3) else []
        if self.profile.get("p_transient") and w.cluster is not None and r.chance(self.profile["p_transient"]):
            # the run meets one transient failure of a scheduler command (a busy controller); the user simply
            # runs again.  Whatever the first attempt got accepted is part of "the run".
            from .world_scenario import SUBMIT_EXE

            try:
                n_sub = max(1, len(w.m_plan(patterns)))
            except Exception:
                n_sub = 1
            exe = SUBMIT_EXE[self.knobs["backend"]] if r.chance(0.8) else \
                {"slurm": "squeue", "sge": "qstat", "lsf": "bjobs"}[self.knobs["backend"]]
            self.emit(w, {"op": "gwf", "argv": ["run"] + patterns, "cwd": self.knobs["cwd"],
                          "fault": {"cmd_faults": [[exe, 1 + r.randrange(n_sub), r.pick(["F1", "F1", "F4"])]]}})
            w.probe("runs_with_transient_failure")
            if w.pending_violation:
                return
        self.emit(w, {"op": "gwf", "argv": ["run"] + patterns, "cwd": self.knobs["cwd"]})
        if w.pending_violation or not self.drain_ops(w, r, all_ok=True, bound=bound):
            return
        self.emit(w, {"op": "expect_converged", "patterns": patterns})
        if w.pending_violation:
            return
        if patterns:
            # bring the whole workflow to the fixpoint before the perturbation rounds
            if not self.drain_ops(w, r, all_ok=True, bound=bound):
                return
            self.emit(w, {"op": "gwf", "argv": ["run"], "cwd": "root"})
            if w.pending_violation or not self.drain_ops(w, r, all_ok=True, bound=bound):
                return
            self.emit(w, {"op": "expect_converged", "patterns": []})
        for _ in range(r.pick([0, 1, 2, 3])):
            if w.pending_violation or not self.drain_ops(w, r, all_ok=True, bound=bound):
                return
            outs = [o for t in w.model.targets.values() for o in t.outputs]
            if outs and r.chance(0.5):
                self.emit(w, {"op": "perturb", "kind": "delete_output", "f": r.pick(outs)})
            elif w.model.sources:
                self.emit(w, {"op": "perturb", "kind": "modify_source", "f": r.pick(w.model.sources)})
            else:
                break
            self.emit(w, {"op": "expect_rerun"})
            if w.pending_violation or not self.drain_ops(w, r, all_ok=True, bound=bound):
                return
            self.emit(w, {"op": "expect_converged", "patterns": []})

    def run(self):
        # generation goes through emit(); the generic loop must not append ops twice
        return super().run()
