"""Engine P: the real gwf local worker pool (Scheduler + Server.handle_connection) on a SimLoop
with fake child processes, fake client connections and an in-memory log directory.

Real code: gwf.backends.local.Scheduler, Server.handle_connection, encode/decode, asyncio tasks,
futures, semaphores, streams, timeouts.  Stubs: processes (sim.proc), TCP (Conn), clock, log files.
"""
import asyncio
import errno
import io
import json

from .common import HarnessError, SimAbort, Violation, ensure_gwf_on_path
from .loop import Clock, SimLoop
from .proc import OS_PROXY, PROXY, ProcTable

ensure_gwf_on_path()
from gwf.backends import local as L  # noqa: E402

FINAL = ("FAILED", "COMPLETED", "CANCELLED", "KILLED")
FAILED_CLASS = ("FAILED", "KILLED")


# ---------------------------------------------------------------------------------------
class MemFS:
    """Log directory of the pool in Engine P (seam: the name `open` in gwf.backends.local)."""

    def __init__(self, trace):
        self.files = {}
        self.trace = trace
        self.faults = {}  # basename -> 'open' | 'write'
        self.fired = []

    def open(self, path, mode="r", *a, **kw):
        path = str(path)
        base = path.rsplit("/", 1)[-1]
        if "w" not in mode:
            raise HarnessError(f"MemFS: unexpected open mode {mode} for {path}")
        kind = self.faults.get(base)
        if kind == "open":
            self.fired.append((base, "open"))
            self.trace.log("log_fault", file=base, at="open")
            raise OSError(errno.ENOSPC, "No space left on device", path)
        self.files[path] = b""
        return _MemFile(self, path, base, kind == "write")


class _MemFile:
    def __init__(self, fs, path, base, fail_write):
        self.fs, self.path, self.base, self.fail_write = fs, path, base, fail_write

    def write(self, data):
        if self.fail_write:
            self.fs.fired.append((self.base, "write"))
            self.fs.trace.log("log_fault", file=self.base, at="write")
            raise OSError(errno.EIO, "Input/output error", self.path)
        self.fs.files[self.path] += bytes(data)
        return len(data)

    def __enter__(self):
        return self

    def __exit__(self, *exc):
        return False

    def close(self):
        pass


# ---------------------------------------------------------------------------------------
class _ObsMixin:
    """Mixed into whatever mapping type the real Scheduler uses for task_states, so that every
    publication is an observable event without replacing the implementation's own behaviour."""

    world = None

    def __setitem__(self, tid, state):
        old = dict.get(self, tid)
        super().__setitem__(tid, state)
        if self.world is not None:
            self.world.on_publish(tid, old, state)


def observed_states(orig, world):
    import collections

    base = type(orig)
    cls = type("Obs" + base.__name__, (_ObsMixin, base), {})
    if isinstance(orig, collections.defaultdict):
        new = cls(orig.default_factory)
    else:
        new = cls()
    dict.update(new, orig)
    new.world = world
    return new


class ObsScheduler(L.Scheduler):
    """Real Scheduler; cancel_task is wrapped only to record the published state it met."""

    _world = None

    async def cancel_task(self, tid):
        w = self._world
        try:
            before = dict.get(self.task_states, tid)
        except TypeError:
            before = None
        w.on_cancel_request(tid, before)
        return await L.Scheduler.cancel_task(self, tid)

    async def enqueue_task(self, name, *a, **kw):
        tid = await L.Scheduler.enqueue_task(self, name, *a, **kw)
        self._world.on_enqueued(name, tid, kw.get("script", a[0] if a else None))
        cb = self._world.on_enqueued_cb
        if cb is not None:
            cb(name, tid, kw.get("script", a[0] if a else None), kw.get("deps", a[3] if len(a) > 3 else []))
        return tid

    def get_task_states(self):
        res = L.Scheduler.get_task_states(self)
        return res


class FakeWriter:
    def __init__(self, conn):
        self.conn = conn

    def write(self, data):
        c = self.conn
        w = c.world
        # deterministic livelock detector: a connection handler that answers tens of thousands of times
        # within ONE loop iteration never yields to the event loop (the whole pool is frozen)
        w.writes_this_iteration += 1
        if w.writes_this_iteration > 20000:
            # record the violation on the world (asyncio stores a BaseException raised inside a task in the
            # task instead of propagating it), then end the spinning handler
            w.flag("C14", "handler_never_yields",
                   f"the handler of connection {c.cid} wrote {w.writes_this_iteration} replies without ever yielding "
                   f"to the event loop: the pool is frozen")
            raise SimAbort(Violation("C14", "handler_never_yields", "spinning handler stopped", {"engine": "pool"}))
        if c.client_gone:
            c.dropped_writes += 1
            return
        c.out += data
        w = c.world
        # ground truth at the instant the server produced this line (one line per write)
        c.line_meta.append(({str(t): s.name for t, s in dict.items(w.sched.task_states)},
                            [str(t) for t in w.issued_tids]))

    async def drain(self):
        c = self.conn
        # flow control: a peer that has stopped reading fills the socket buffers; drain() then waits until it
        # reads again or goes away (asyncio's transport pauses the writer above its high-water mark)
        while not c.reading and not c.client_gone and len(c.out) > c.capacity:
            if not c.blocked_in_drain:
                c.world.trace.log("drain_blocked", conn=c.cid, unread=len(c.out))
                c.world.probe("handler_blocked_by_stalled_reader")
            c.blocked_in_drain = True
            fut = c.world.loop.create_future()
            c.drain_waiters.append(fut)
            await fut
        c.blocked_in_drain = False
        if c.client_gone and c.reset_on_drain:
            raise ConnectionResetError("Connection lost")

    def close(self):
        self.conn.server_closed = True

    def is_closing(self):
        return self.conn.server_closed

    async def wait_closed(self):
        return

    def get_extra_info(self, name, default=None):
        return default


class Conn:
    def __init__(self, world, cid, reset_on_drain=True):
        self.world = world
        self.cid = cid
        self.reader = asyncio.StreamReader(loop=world.loop)
        self.writer = FakeWriter(self)
        self.out = bytearray()
        self.client_gone = False
        self.eof_sent = False
        self.reset_on_drain = reset_on_drain
        self.reading = True  # False: the client is alive and connected but has stopped reading
        self.capacity = getattr(world, "sock_capacity", 1 << 22)  # unread bytes the socket buffers take
        self.drain_waiters = []
        self.blocked_in_drain = False
        self.server_closed = False
        self.dropped_writes = 0
        self.pending = []
        self.line_meta = []
        self.tainted = False
        self.last_states = None
        self.handler_exc = None
        self.task = world.loop.create_task(world.server.handle_connection(self.reader, self.writer))
        self.task.add_done_callback(self._done)

    def _done(self, task):
        # mirrors asyncio.streams.StreamReaderProtocol's callback: log + close transport on error
        if task.cancelled():
            self.server_closed = True
            return
        exc = task.exception()
        if exc is not None:
            self.handler_exc = exc
            self.server_closed = True
            self.world.trace.log("handler_died", conn=self.cid, exc=type(exc).__name__)
        else:
            self.world.trace.log("handler_returned", conn=self.cid)

    @property
    def usable(self):
        return not self.client_gone and not self.eof_sent and not self.server_closed and not self.task.done()

    def send(self, data: bytes):
        if self.client_gone or self.eof_sent:
            return
        if self.server_closed or self.task.done():
            return  # bytes to a closed peer vanish
        self.reader.feed_data(data)

    def send_eof(self):
        if self.client_gone or self.eof_sent:
            return
        self.eof_sent = True
        if not self.task.done():
            self.reader.feed_eof()

    def wake_drain(self):
        ws, self.drain_waiters = self.drain_waiters, []
        for fut in ws:
            if not fut.done():
                fut.set_result(None)

    def resume_reading(self):
        self.reading = True
        self.wake_drain()

    def abort(self):
        """Client process dies / closes the socket without the protocol's close message."""
        if self.client_gone:
            return
        self.client_gone = True
        self.wake_drain()
        if not self.eof_sent and not self.task.done():
            self.eof_sent = True
            self.reader.feed_eof()

    def take_lines(self):
        lines = []
        while True:
            i = self.out.find(b"\n")
            if i < 0:
                break
            meta = self.line_meta.pop(0) if self.line_meta else (None, None)
            lines.append((bytes(self.out[: i + 1]), meta))
            del self.out[: i + 1]
        return lines


# ---------------------------------------------------------------------------------------
class TaskFacts:
    __slots__ = (
        "k", "tid", "name", "script", "deps_k", "dep_tids", "limit", "plan", "procs", "spawn_failed",
        "cancels", "history", "final", "accepted_seq", "conn", "reply_seen",
    )

    def __init__(self, k, name, script, deps_k, limit, plan, conn):
        self.k, self.name, self.script, self.deps_k, self.limit, self.plan, self.conn = (
            k, name, script, list(deps_k), limit, plan, conn)
        self.tid = None
        self.dep_tids = []
        self.procs = []
        self.spawn_failed = None
        self.cancels = []  # (published_before, proc_phase, deadline_passed)
        self.history = []
        self.final = None
        self.accepted_seq = None
        self.reply_seen = False

    @property
    def started_at(self):
        """Instant the spawn completed = instant the task entered wait_for (time moves only at quiescence)."""
        return self.procs[-1].started_at if self.procs else None


class PoolWorld:
    """One simulated worker pool.  `props` selects which oracles raise."""

    def __init__(self, trace, cores, props, clock=None, memfs=True, working_dir="/simproj", hash_salt=0,
                 dup_names=False):
        self.dup_names = dup_names  # the same target name live twice (a target submitted again by a later run)
        self.trace = trace
        self.cores = cores
        self.props = set(props)
        self.clock = clock or Clock()
        self.loop = SimLoop(self.clock, hash_salt)
        self.table = ProcTable(self.loop, trace, self._plan_for)
        self.table.listeners.append(self)
        self.memfs = MemFS(trace) if memfs else None
        self.working_dir = working_dir
        self.tasks_by_k = {}
        self.tasks_by_tid = {}
        self.tasks_by_script = {}
        self.tasks_by_name = {}
        self.last_snapshot = None
        self.last_issued = None
        self.on_enqueued_cb = None
        self.on_cancel_cb = None
        self.writes_this_iteration = 0
        self.conns = {}
        self.probes = {}
        self.faults = {}
        self.sim_seconds = 0.0
        self.states_seen = set()
        self.pending_violation = None
        self.issued_tids = []
        self.max_live = 0
        from .sock import TimeProxy

        _t, _c = L.time, TimeProxy.clock
        L.time, TimeProxy.clock = TimeProxy, self.clock  # the scheduler reads the clock when it is created
        try:
            sched = ObsScheduler(working_dir, cores)
        finally:
            L.time, TimeProxy.clock = _t, _c
        sched.task_states = observed_states(sched.task_states, self)
        sched._world = self
        self.sched = sched
        self.server = L.Server(sched)

    # -- installation of seams ---------------------------------------------------------
    def __enter__(self):
        self._saved_asyncio = L.asyncio
        L.asyncio = PROXY
        PROXY._table = self.table
        OS_PROXY._table = self.table
        # every clock the pool reads is the simulated one (the pool derives its first task id from time.time())
        from .sock import TimeProxy

        self._saved_time = L.time
        self._saved_proxy_clock = TimeProxy.clock
        L.time = TimeProxy
        TimeProxy.clock = self.clock
        self._saved_os = L.__dict__.get("os")
        if self._saved_os is not None:
            L.os = OS_PROXY
        if self.memfs is not None:
            L.open = self.memfs.open
        return self

    def __exit__(self, *exc):
        L.asyncio = self._saved_asyncio
        from .sock import TimeProxy

        L.time = self._saved_time
        TimeProxy.clock = self._saved_proxy_clock
        PROXY._table = None
        OS_PROXY._table = None
        if self._saved_os is not None:
            L.os = self._saved_os
        if self.memfs is not None and "open" in L.__dict__:
            del L.open
        # cancel whatever is left so that no "never awaited"/"pending task" noise leaks out
        for t in list(asyncio.all_tasks(self.loop)):
            t._log_destroy_pending = False
            if not t.done():
                try:
                    t.get_coro().close()  # runs finally-blocks now, while the loop still exists
                except BaseException:
                    pass
        self.loop.hard_close()
        return False

    # -- helpers -----------------------------------------------------------------------
    def st(self, tid):
        """Published state of tid, read without side effects on the implementation's mapping."""
        try:
            return dict.get(self.sched.task_states, tid)
        except TypeError:
            return None

    def st_name(self, tid):
        s = self.st(tid)
        return s.name if s is not None else None

    def probe(self, name, n=1):
        self.probes[name] = self.probes.get(name, 0) + n

    def fault(self, name, n=1):
        self.faults[name] = self.faults.get(name, 0) + n

    def _plan_for(self, script):
        f = self.tasks_by_script.get(script)
        return f.plan if f is not None else {}

    def flag(self, prop, rule, detail, **facets):
        """Record a violation if that property's oracle is enabled (first one wins)."""
        if prop in self.props and self.pending_violation is None:
            facets.setdefault("engine", "pool")
            self.pending_violation = Violation(prop, rule, detail, facets)
            self.trace.log("violation", prop=prop, rule=rule, detail=detail)

    def raise_pending(self):
        if self.pending_violation is not None:
            raise self.pending_violation

    # -- observation callbacks ----------------------------------------------------------
    def on_publish(self, tid, old, new):
        f = self.tasks_by_tid.get(tid)
        self.trace.log("publish", tid=tid, old=old.name if old else None, new=new.name)
        if old is not None and old.name in FINAL and new.name != old.name:
            self.flag("C13", "final_state_changed", f"tid {tid}: {old.name} -> {new.name}")
        if f is not None:
            f.history.append(new.name)

    def on_cancel_request(self, tid, before):
        f = self.tasks_by_tid.get(tid)
        self.trace.log("cancel_processed", tid=tid, before=before.name if before else None)
        if getattr(self, "on_cancel_cb", None) is not None:
            self.on_cancel_cb(tid)
        if f is None or before is None:
            return
        phase = f.procs[-1].phase if f.procs else None
        f.cancels.append((before.name, phase, self._deadline_state(f), bool(f.procs)))
        if before.name == "SUBMITTED":
            if all(self.st_name(d) == "COMPLETED" for d in f.dep_tids) and not f.procs:
                self.probe("cancel_while_waiting_for_core")
            else:
                self.probe("cancel_while_waiting_for_deps")
        elif before.name == "RUNNING":
            self.probe("cancel_while_running")
        else:
            self.probe("cancel_of_finished")

    def _deadline_state(self, f):
        """'none' | 'before' | 'at' | 'after' relative to now."""
        if f.limit is None or f.started_at is None:
            return "none"
        d = f.started_at + f.limit
        now = self.loop.time()
        return "before" if now < d else ("at" if now == d else "after")

    def on_spawn(self, proc):
        f = self.tasks_by_script.get(proc.script)
        if f is None:
            return
        f.procs.append(proc)
        if len(f.procs) > 1:
            self.flag("C13", "respawn", f"task {f.k} spawned {len(f.procs)} times")
        # C11: every dependency's process exited 0 and is published COMPLETED
        for dk, dt in zip(f.deps_k, f.dep_tids):
            df = self.tasks_by_tid.get(dt)
            pub = self.st(dt)
            ok = (
                pub is not None and pub.name == "COMPLETED" and df is not None and df.procs
                and df.procs[-1].returncode == 0
            )
            if not ok:
                self.flag(
                    "C11", "spawn_before_deps_ok",
                    f"task {f.k} spawned while dependency {dk} is {pub.name if pub else None} "
                    f"rc={df.procs[-1].returncode if df and df.procs else None}",
                )
            elif df.procs[-1].sigkill or df.procs[-1].sigterm:
                # the pool signalled that process while it was alive - it only does so for a task that exceeded its
                # time limit or was cancelled - and such a dependency never counts as finished, whatever its exit status
                self.flag(
                    "C11", "spawn_after_dep_stopped",
                    f"task {f.k} spawned although the pool had stopped its dependency {dk} "
                    f"({'SIGKILL' if df.procs[-1].sigkill else 'SIGTERM'} sent to the live process; it then exited "
                    f"{df.procs[-1].returncode} and is published {pub.name})",
                )
        if f.cancels and any(c[0] in ("SUBMITTED", "RUNNING") for c in f.cancels):
            self.flag("C13", "spawn_after_cancel", f"task {f.k} spawned after an effective cancel")

    def on_spawn_fail(self, script, kind):
        f = self.tasks_by_script.get(script)
        if f is not None:
            f.spawn_failed = kind
            self.fault("spawn_fail_" + kind)

    def on_signal(self, proc, sig):
        pass

    # -- stepping with invariants ---------------------------------------------------------
    def _after_iteration(self):
        self.table.progress()
        live = len(self.table.live_not_doomed())
        if live > self.max_live:
            self.max_live = live
        if live > self.cores:
            self.flag("C12", "live_gt_cores", f"{live} processes alive (not SIGKILLed) on {self.cores} cores")
        if live == self.cores:
            self.probe("at_core_limit")
        self.states_seen.add(self.abstract_state())

    def abstract_state(self):
        st = tuple(sorted(s.name for s in self.sched.task_states.values()))
        sem = getattr(self.sched, "cores_ressource", None)
        return (st, len(self.table.live()), getattr(sem, "_value", None))

    def step(self):
        self.writes_this_iteration = 0
        self.loop.step()
        self._after_iteration()

    def run(self, n=None, cap=5000):
        i = 0
        while self.loop.runnable_now() and (n is None or i < n):
            if i >= cap:
                raise HarnessError("pool: iteration cap reached")
            self.step()
            i += 1
        return i

    def advance(self):
        """Time moves only at quiescence: run to quiescence, then jump to the next timer."""
        self.run()
        dt = self.loop.advance_to_next_timer()
        if dt:
            self.sim_seconds += dt
        self.trace.log("advance", dt=dt)
        return dt

    def fully_quiescent(self):
        if self.loop.runnable_now() or self.loop.next_timer() is not None:
            return False
        for p in self.table.procs.values():
            if p.phase == "EXITED":
                return False
            if p._started is not None and not p._started.done():
                return False
        return True

    # -- full-quiescence oracles -----------------------------------------------------------
    def check_quiescent_point(self):
        if not self.fully_quiescent():
            return
        self.probe("full_quiescence_points")
        alive = self.table.live()
        # C12 work conservation
        if len(alive) < self.cores:
            for f in self.tasks_by_tid.values():
                st = self.st(f.tid)
                if st is None or st.name != "SUBMITTED" or f.procs or f.spawn_failed:
                    continue
                if any(c[0] in ("SUBMITTED", "RUNNING") for c in f.cancels):
                    continue
                if all(self.st_name(d) == "COMPLETED" for d in f.dep_tids):
                    self.flag(
                        "C12", "idle_core_while_ready",
                        f"task {f.k} is ready, {len(alive)} of {self.cores} cores busy, nothing runnable",
                    )
        # C13 no survivors: a task in a final state has no live process
        for f in self.tasks_by_tid.values():
            st = self.st(f.tid)
            if st is not None and st.name in FINAL:
                for p in f.procs:
                    if p.alive and not p.sigkill:
                        self.flag(
                            "C13", "process_outlives_final_state",
                            f"task {f.k} is {st.name} but pid {p.pid} is alive and was never sent SIGKILL",
                        )
                    if p.children_alive and st.name in ("CANCELLED", "KILLED"):
                        self.flag(
                            "C13", "children_survive_kill",
                            f"task {f.k} is {st.name} but children of pid {p.pid} are still running",
                            children=True,
                        )

    # -- client operations -------------------------------------------------------------------
    def connect(self, cid, reset_on_drain=True):
        c = Conn(self, cid, reset_on_drain)
        self.conns[cid] = c
        self.trace.log("connect", conn=cid)
        return c

    def conn(self, cid):
        c = self.conns.get(cid)
        if c is None:
            c = self.connect(cid)
        return c

    def request(self, cid, kind, **msg):
        c = self.conn(cid)
        data = L.encode(kind, **msg).encode("utf-8")
        self.trace.log("client_send", conn=cid, req=kind)
        c.send(data)
        return c

    def submit(self, cid, k, deps_k, limit, plan, raw_deps=None, abort_after=False):
        """Send enqueue_task for scenario task k.  The tid is learnt when the (real) scheduler
        assigns it (on_enqueued); the reply line is cross-checked when it arrives."""
        if k in self.tasks_by_k:
            return None
        c = self.conn(cid)
        if not c.usable:
            return None
        name, script = (f"T{k // 2}" if self.dup_names and k < 100 else f"T{k}"), f"script-{k}"
        deps_k = [d for d in deps_k if d in self.tasks_by_k and self.tasks_by_k[d].tid is not None]
        f = TaskFacts(k, name, script, deps_k, limit, plan, cid)
        f.dep_tids = [self.tasks_by_k[d].tid for d in f.deps_k]
        self.tasks_by_k[k] = f
        self.tasks_by_script[script] = f
        self.tasks_by_name.setdefault(name, []).append(f)
        if self.memfs is not None and plan.get("log_fail"):
            which, at = plan["log_fail"]
            self.memfs.faults[f"{name}.{which}"] = at
        self.request(cid, "enqueue_task", name=name, script=script, working_dir=self.working_dir,
                     time_limit=limit, deps=f.dep_tids if raw_deps is None else raw_deps)
        c.pending.append(("enqueue", k))
        if abort_after:
            c.abort()
        return f

    def on_enqueued(self, name, tid, script=None):
        f = self.tasks_by_script.get(script) if isinstance(script, str) else None
        if f is not None and f.tid is not None:
            f = None
        self.trace.log("enqueued", name=name, tid=tid)
        if tid in self.tasks_by_tid or tid in self.issued_tids:
            self.flag("C14", "id_reused", f"tid {tid} issued twice (second time for {name})")
            return
        self.issued_tids.append(tid)
        if f is None:
            return
        f.tid = tid
        f.accepted_seq = self.trace.seq
        self.tasks_by_tid[tid] = f
        f.history.append("SUBMITTED")

    def collect_replies(self):
        """Read whatever the server wrote to each connection and match it to the requests (FIFO)."""
        for cid in sorted(self.conns):
            c = self.conns[cid]
            if not c.reading:
                continue  # a stalled client leaves everything in the socket buffers
            for ln, meta in c.take_lines():
                try:
                    kind, msg = L.decode(ln.decode("utf-8"))
                except Exception:
                    self.flag("C14", "unparsable_reply", f"conn {cid}: {ln[:60]!r}")
                    continue
                if c.tainted or cid != "c0":
                    continue  # only the well-behaved client's replies are matched; the others' are their own business
                if not c.pending:
                    self.flag("C14", "unsolicited_reply", f"conn {cid}: {kind}")
                    continue
                want = c.pending.pop(0)
                if want[0] == "enqueue":
                    f = self.tasks_by_k.get(want[1])
                    if kind != "task_enqueued" or f is None or f.tid is None or msg.get("tid") != f.tid:
                        self.flag("C14", "wrong_reply_to_enqueue",
                                  f"conn {cid} task {want[1]}: got {kind} {msg}, scheduler assigned {f.tid if f else None}")
                    else:
                        f.reply_seen = True
                elif want[0] == "states":
                    c.last_states = (msg.get("tasks") if kind == "task_states" else None, meta)

    def cancel(self, cid, k):
        f = self.tasks_by_k.get(k)
        if f is None or f.tid is None:
            return
        c = self.conn(cid)
        if not c.usable:
            return
        self.request(cid, "cancel_task", tid=f.tid)

    def query(self, cid):
        """get_task_states on a healthy connection: (reported, truth-at-the-instant-of-the-answer)."""
        c = self.conn(cid)
        if not c.usable:
            return None, None
        self.last_snapshot = None
        c.last_states = None
        self.request(cid, "get_task_states")
        c.pending.append(("states", None))
        for _ in range(200):
            self.collect_replies()
            if c.last_states is not None or not self.loop.runnable_now():
                break
            self.step()
        self.collect_replies()
        if c.last_states is None:
            return None, None
        self.last_snapshot, self.last_issued = c.last_states[1]
        return c.last_states[0], self.last_snapshot

    # -- process operations -------------------------------------------------------------------
    def proc_of(self, k):
        f = self.tasks_by_k.get(k)
        if f is None or not f.procs:
            return None
        return f.procs[-1]

    def proc_exit(self, k, code):
        p = self.proc_of(k)
        if p is None or not p.alive:
            return False
        if p._started is not None and not p._started.done() and not p.sigkill:
            # still inside the spawn: let it finish starting first
            p.do_started()
        f = self.tasks_by_k[k]
        if f.limit is not None and f.started_at is not None:
            ds = self._deadline_state(f)
            if ds == "at":
                self.probe("exit_at_deadline")
        p.do_exit(code)
        if p.blocked_on_pipe:
            self.probe("process_blocked_on_full_pipe")
        return True

    def proc_drain(self, k):
        p = self.proc_of(k)
        if p is None or p.phase != "EXITED":
            return False
        f = self.tasks_by_k[k]
        if f.limit is not None and self._deadline_state(f) == "at":
            self.probe("close_at_deadline")
        p.do_drain()
        return True

    def proc_started(self, k):
        p = self.proc_of(k)
        if p is None or p._started is None or p._started.done():
            return False
        p.do_started()
        return True

    # -- settle: faults stop, everything is allowed to finish -------------------------------------
    def settle(self):
        bound = 50 + 20 * max(1, len(self.tasks_by_k))
        for _ in range(bound * 4):
            self.run()
            if self.pending_violation:
                return
            progressed = False
            for p in sorted(self.table.procs.values(), key=lambda p: p.pid):
                if p._started is not None and not p._started.done() and p.alive and not p.sigkill:
                    p.do_started()
                    progressed = True
                    break
                if p.phase == "EXITED":
                    p.do_drain()
                    progressed = True
                    break
            if progressed:
                continue
            doomed = [p for p in self.table.live() if p.sigkill]
            if doomed:
                p = min(doomed, key=lambda p: p.pid)
                p.do_exit(-9)
                continue
            if self.loop.next_timer() is not None:
                self.advance()
                continue
            self.check_quiescent_point()
            alive = self.table.live()
            if alive:
                p = min(alive, key=lambda p: p.pid)
                p.do_exit(p.plan.get("code", 0))
                continue
            break
        else:
            self.flag("C13", "not_final", "settle phase did not terminate within its bound", liveness=True)
        self.final_checks()

    # -- end-of-run oracles (C11 class, C13 admissible final state, logs, liveness) -----------------
    def admissible(self, f):
        """Set of admissible final LocalStatus names for task f, from what happened to it."""
        states = self.sched.task_states
        bad = [self.st_name(d) for d in f.dep_tids if self.st_name(d) != "COMPLETED"]
        eff = [c for c in f.cancels if c[0] in ("SUBMITTED", "RUNNING")]
        if "bogus_dep" in f.plan:
            return set(FINAL), "bogus"  # depends on an id that was never issued: any final state
        if bad:
            adm = set()
            for b in bad:
                if b in FAILED_CLASS:
                    adm.update(FAILED_CLASS)
                elif b == "CANCELLED":
                    adm.add("CANCELLED")
                else:
                    adm.update(("FAILED", "KILLED", "CANCELLED"))  # dependency itself not final: reported there
            if eff:
                adm.add("CANCELLED")
            return adm, "dep"
        nat = self.natural(f)
        if eff:
            adm = {"CANCELLED"}
            first = eff[0]
            if first[1] == "CLOSED":
                adm |= nat  # the result was already in, only not yet published
                self.probe("cancel_in_publish_window")
            if first[2] in ("at", "after"):
                adm.add("KILLED")
            return adm, "cancel"
        return nat, "natural"

    def natural(self, f):
        if f.spawn_failed:
            return {"FAILED"}
        if not f.procs:
            return set()  # never spawned, never failed to spawn: nothing admissible (liveness)
        p = f.procs[-1]
        code = p.returncode
        res = set()
        by_code = {"COMPLETED"} if code == 0 else {"FAILED"}
        if f.plan.get("log_fail"):
            by_code = by_code | {"FAILED"}
        if f.limit is None or f.started_at is None:
            return by_code
        deadline = f.started_at + f.limit
        closed_at = p.closed_at
        if closed_at is None:
            return {"KILLED"} | by_code
        if closed_at < deadline:
            res = by_code
        elif closed_at == deadline:
            res = by_code | {"KILLED"}
            self.probe("close_at_deadline_final")
        else:
            res = {"KILLED"}
        return res

    def final_checks(self):
        states = self.sched.task_states
        for tid in self.issued_tids:
            if tid not in self.tasks_by_tid:
                st = self.st(tid)
                if st is None or st.name not in FINAL:
                    self.flag("C14", "task_lost", f"task accepted from a malformed request (tid {tid}) never reached "
                              f"a final state ({st.name if st else None})", anonymous=True)
        for tid in sorted(self.tasks_by_tid):
            f = self.tasks_by_tid[tid]
            st = self.st(tid)
            name = st.name if st is not None else None
            if name not in FINAL:
                self.flag("C13", "not_final", f"task {f.k} (tid {tid}) ended {name}; history {f.history}",
                          stuck=name)
                self.flag("C14", "task_lost", f"accepted task {f.k} never reached a final state ({name})")
                continue
            f.final = name
            adm, why = self.admissible(f)
            if why == "dep":
                if f.procs:
                    self.flag("C11", "spawned_despite_bad_dependency", f"task {f.k}")
                if name not in adm:
                    self.flag("C11", "dep_class_mismatch", f"task {f.k} ended {name}, dependencies imply {sorted(adm)}")
                    self.flag("C13", "wrong_final_state", f"task {f.k} ended {name} although its dependencies ended "
                              f"{[self.st_name(d) for d in f.dep_tids]}; admissible {sorted(adm)}", got=name, why="dep")
            else:
                if name not in adm:
                    self.flag("C13", "wrong_final_state",
                              f"task {f.k} ended {name}, admissible {sorted(adm)} ({why}); "
                              f"rc={[p.returncode for p in f.procs]} cancels={f.cancels} limit={f.limit}",
                              got=name, why=why)
            # completed iff ran and exited 0
            if name == "COMPLETED" and not (f.procs and f.procs[-1].returncode == 0):
                self.flag("C13", "completed_without_success", f"task {f.k}")
            # logs of a task that ran to its end
            if self.memfs is not None and not self.dup_names and name in ("COMPLETED", "FAILED") and f.procs \
                    and not f.plan.get("log_fail") \
                    and why == "natural" and f.procs[-1].phase == "CLOSED" and not f.procs[-1].sigkill:
                p = f.procs[-1]
                base = f"{self.working_dir}/.gwf/logs/{f.name}"
                got_o = self.memfs.files.get(base + ".stdout")
                got_e = self.memfs.files.get(base + ".stderr")
                if got_o != p.sent_out or got_e != p.sent_err:
                    self.flag("C13", "log_mismatch",
                              f"task {f.k}: stdout {None if got_o is None else len(got_o)}/{len(p.sent_out)} "
                              f"stderr {None if got_e is None else len(got_e)}/{len(p.sent_err)} bytes")
                else:
                    self.probe("logs_checked")
            for p in f.procs:
                if p.alive:
                    self.flag("C13", "process_outlives_final_state", f"task {f.k} pid {p.pid} alive at end")
