from checks._pool_common import ASSUMPTIONS, COMPONENTS, make, simplify_knobs, simplify_op  # noqa: F401

PROP = "C13"
LEVEL = "exploration"
RUNS = {"quick": 40000, "thorough": 2000000}
BUDGET_S = {"quick": 45, "thorough": 840}
CHUNK = 400
RULE = "placeholder"
make_scenario = make({"C13"}, "pool")
