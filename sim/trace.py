"""Event log with a global sequence number; digest is the replay fingerprint.

Logging never draws from a PRNG and never reads a real clock."""
import hashlib
import json


class Trace:
    def __init__(self, keep=True):
        self.seq = 0
        self.keep = keep
        self.events = []
        self._h = hashlib.sha256()

    def log(self, _kind, **kw):
        self.seq += 1
        rec = (self.seq, _kind, kw)
        line = json.dumps(rec, sort_keys=True, default=repr)
        self._h.update(line.encode("utf-8"))
        self._h.update(b"\n")
        if self.keep:
            self.events.append(rec)
        return self.seq

    def digest(self):
        return self._h.hexdigest()

    def dump(self, limit=None):
        ev = self.events if limit is None else self.events[-limit:]
        return [json.dumps(e, sort_keys=True, default=repr) for e in ev]
