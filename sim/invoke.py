"""In-process gwf invocations ("process incarnations") with what a fresh interpreter would give."""
import copy
import zlib
import logging
import os
import sys

from .common import ensure_gwf_on_path

ensure_gwf_on_path()

import click  # noqa: E402
import click._compat  # noqa: E402
from click.testing import CliRunner  # noqa: E402

import gwf.backends.utils as BU  # noqa: E402
import gwf.utils as GU  # noqa: E402
from gwf.core import Target  # noqa: E402

from . import fsx  # noqa: E402
from .cluster import ShutilProxy, SubprocessProxy  # noqa: E402

_ORIG_ISATTY = click._compat.isatty
_ep_cache = {}
_real_entry_points = GU._entry_points


def _cached_entry_points(**kw):
    key = tuple(sorted(kw.items()))
    if key not in _ep_cache:
        _ep_cache[key] = _real_entry_points(**kw)
    return _ep_cache[key]


_installed = False
_GLOBAL_DICTS = []
HASH_SEED = [0]


def _target_hash(self):
    # identity hash = heap address (varies with ASLR); the seed decides a legal iteration order instead
    return zlib.crc32(f"{HASH_SEED[0]}:{self.name}".encode("utf-8"))


def install():
    """Install the process-wide seams once (all inert unless a world is active)."""
    global _installed
    if _installed:
        return
    _installed = True
    sys.dont_write_bytecode = True
    fsx.install()
    GU._entry_points = _cached_entry_points
    Target.__hash__ = _target_hash
    BU.subprocess = SubprocessProxy
    BU.shutil = ShutilProxy
    import gwf.backends.local as LOCAL

    from .sock import SocketProxy, TimeProxy

    LOCAL.socket = SocketProxy
    LOCAL.time = TimeProxy
    import gwf.cli  # noqa  (imports every plugin through entry points)
    import gwf.backends.lsf as LSF
    import gwf.backends.sge as SGE
    import gwf.backends.slurm as SLURM
    import gwf.conf as CONF

    for mod, name in ((SLURM, "TARGET_DEFAULTS"), (SGE, "TARGET_DEFAULTS"), (LSF, "TARGET_DEFAULTS"),
                      (CONF, "CONFIG_DEFAULTS"), (SLURM, "OPTION_FLAGS"), (SGE, "OPTION_FLAGS")):
        _GLOBAL_DICTS.append((getattr(mod, name), copy.deepcopy(getattr(mod, name))))


class Result:
    __slots__ = ("exit_code", "stdout", "stderr", "output", "exception", "killed", "no_color", "seams", "faulted",
                 "accepted", "cancel_requests", "cmd_log")

    def __init__(self):
        self.exit_code = None
        self.stdout = self.stderr = self.output = ""
        self.exception = None
        self.killed = False
        self.no_color = False


def invoke(argv, cwd, input=None):
    """Run `gwf <argv>` with cwd; returns Result. BaseExceptions raised at seams (SimKill) mark the
    incarnation as killed."""
    install()
    import gwf.cli

    res = Result()
    old_cwd = os.getcwd()
    old_path = list(sys.path)
    root = logging.getLogger()
    old_handlers = list(root.handlers)
    old_level = root.level
    os.chdir(cwd)
    try:
        runner = CliRunner()
        try:
            r = runner.invoke(gwf.cli.main, list(argv), input=input, catch_exceptions=True)
            res.exit_code = r.exit_code
            res.output = r.output
            try:
                res.stdout = r.stdout
                res.stderr = r.stderr
            except Exception:
                res.stdout = r.output
            if r.exception is not None and not isinstance(r.exception, SystemExit):
                res.exception = r.exception
        except fsx.SimKill:
            res.killed = True
    finally:
        os.chdir(old_cwd)
        sys.path[:] = old_path
        for h in list(root.handlers):
            if h not in old_handlers:
                root.removeHandler(h)
        root.setLevel(old_level)
        res.no_color = click._compat.isatty is not _ORIG_ISATTY
        click._compat.isatty = _ORIG_ISATTY
        if hasattr(Target, "_creation_order"):
            Target._creation_order = 0
        # module-level tables a fresh interpreter would have re-created
        for live, pristine in _GLOBAL_DICTS:
            if live != pristine:
                live.clear()
                live.update(copy.deepcopy(pristine))
    return res
