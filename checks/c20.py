from checks._world_common import ASSUMPTIONS, COMPONENTS, make, simplify_op  # noqa: F401
from sim.conf_scenario import ConfScenario

PROP = "C20"
LEVEL = "exploration"
RUNS = {"quick": 2500, "thorough": 100000}
BUDGET_S = {"quick": 50, "thorough": 840}
CHUNK = 50
RULE = "placeholder"
PROFILE = dict(backends=["multi"], sizes=[1, 2, 3], lengths=[4, 8, 12, 20], weights={}, p_hashing=0.0, cwds=["root"],
               exotic_shapes=False)
make_scenario = make({"C20"}, PROFILE, ConfScenario)


def simplify_knobs(knobs):
    return []
