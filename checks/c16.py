from checks._world_common import ASSUMPTIONS, COMPONENTS, make, simplify_knobs, simplify_op  # noqa: F401
from sim.cmd_scenario import CmdScenario

PROP = "C16"
LEVEL = "exploration"
RUNS = {"quick": 4000, "thorough": 100000}
BUDGET_S = {"quick": 50, "thorough": 840}
CHUNK = 50
RULE = ('One evaluation = one seeded history with `gwf touch [targets]` under a clock that ticks between file operations (0-20 ticks per operation) on timestamp grids 1/1024..2 s, arbitrary initial file states (outputs older than inputs, missing intermediates), backward clock jumps before the command. Oracle: every cone output exists, pre-existing contents identical, nothing outside the cone changed (content and mtime), created files empty, hashes recorded, and a following `gwf status` shows every cone target with outputs completed unless a live/failed/cancelled job or a future-dated source excuses it. Sibling visiting order varies through the seeded Target hash.')
PROFILE = dict(
    nontrivial_probes=['touched_targets_checked'],
    backends=["slurm", "slurm", "sge", "lsf", "local"],
    sizes=[2, 3, 4, 5, 6, 8, 10],
    weights=dict(links=0.4, touch=4, run=1, status=0.5, start=1, finish=1, sched_cancel=0.3, modify_source=1, delete_output=1.5,
                 touch_file=1, set_file=1.5, edit_spec=0.5, advance=1, tick=1, clock_jump=0.4),
    p_job_ok=0.6, p_hashing=0.4, p_huge=0.02,
)
make_scenario = make({"C16"}, PROFILE, CmdScenario)
