from checks._world_common import ASSUMPTIONS, COMPONENTS, make, simplify_knobs, simplify_op  # noqa: F401

PROP = "C08"
LEVEL = "exploration"
RUNS = {"quick": 3000, "thorough": 120000}
BUDGET_S = {"quick": 50, "thorough": 840}
CHUNK = 50
RULE = "placeholder"
PROFILE = dict(
    backends=["slurm", "slurm", "sge", "lsf"],
    weights=dict(status=4, run=3, start=3, finish=3, sched_cancel=0.5, set_code=1.5, set_unpinned=0.3, purge=1,
                 acct_flush=1, foreign=0.7, modify_source=0.3, delete_output=0.3, advance=0.5),
    p_job_ok=0.5,
)
make_scenario = make({"C08"}, PROFILE)
