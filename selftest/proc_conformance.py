#!/venv/bin/python
"""Stub conformance: SimProc vs. real asyncio.create_subprocess_shell on scripted micro-scenarios.
Each scenario is a coroutine parameterised by (spawn, let_exit); it returns a tuple of observations
which must be equal for the real and the simulated process."""
import asyncio
import os
import sys

ROOT = os.path.dirname(os.path.dirname(os.path.abspath(__file__)))
sys.path.insert(0, ROOT)
from sim.loop import SimLoop  # noqa: E402
from sim.proc import ProcTable  # noqa: E402
from sim.trace import Trace  # noqa: E402


async def s_kill_after_communicate(spawn, settle):
    p = await spawn("exit 0")
    await settle(p, 0)
    out = await p.communicate()
    try:
        p.kill()
        r = "no error"
    except ProcessLookupError:
        r = "ProcessLookupError"
    return ("kill_after_communicate", p.returncode, out, r)


async def s_terminate_after_wait(spawn, settle):
    p = await spawn("exit 3")
    await settle(p, 3)
    await p.communicate()
    rc = await p.wait()
    try:
        p.terminate()
        r = "no error"
    except ProcessLookupError:
        r = "ProcessLookupError"
    return ("terminate_after_wait", rc, r)


async def s_cancel_communicate_does_not_kill(spawn, settle):
    p = await spawn("sleep 30")
    t = asyncio.ensure_future(p.communicate())
    await asyncio.sleep(0.05)
    t.cancel()
    try:
        await t
    except asyncio.CancelledError:
        pass
    alive = p.returncode is None
    p.kill()
    await settle(p, -9)
    rc = await p.wait()
    return ("cancel_communicate", alive, rc)


async def s_timeout_then_kill(spawn, settle):
    p = await spawn("sleep 30")
    try:
        await asyncio.wait_for(p.communicate(), timeout=0.05)
        r = "completed"
    except asyncio.TimeoutError:
        r = "timeout"
    alive = p.returncode is None
    p.kill()
    await settle(p, -9)
    rc = await p.wait()
    return ("timeout_then_kill", r, alive, rc)


async def s_output_is_complete(spawn, settle):
    p = await spawn("printf 'aaaa'; printf 'bb' >&2; exit 5", stdout=b"aaaa", stderr=b"bb")
    await settle(p, 5)
    out, err = await p.communicate()
    return ("output", out, err, p.returncode)


async def s_kill_twice_before_reap(spawn, settle):
    p = await spawn("sleep 30")
    p.kill()
    p.kill()  # second signal to a dying/dead but unreaped process: silent
    await settle(p, -9)
    rc = await p.wait()
    return ("kill_twice", rc)


SCENARIOS = [s_kill_after_communicate, s_terminate_after_wait, s_cancel_communicate_does_not_kill, s_timeout_then_kill,
             s_output_is_complete, s_kill_twice_before_reap]


def run_real(sc):
    async def spawn(cmd, stdout=None, stderr=None):
        return await asyncio.create_subprocess_shell(cmd, stdout=asyncio.subprocess.PIPE, stderr=asyncio.subprocess.PIPE)

    async def settle(p, code):
        return  # a real process exits by itself

    return asyncio.run(sc(spawn, settle))


def run_sim(sc):
    loop = SimLoop()
    plans = {}
    table = ProcTable(loop, Trace(keep=False), lambda script: plans.get(script, {}))

    async def spawn(cmd, stdout=b"", stderr=b""):
        plans[cmd] = {"stdout": stdout, "stderr": stderr}
        return await table.spawn(cmd)

    async def settle(p, code):
        # the driver lets the process exit (two-phase) after a few iterations
        await asyncio.sleep(0)
        if p.alive:
            p.do_exit(code)
        await asyncio.sleep(0)
        if p.phase == "EXITED":
            p.do_drain()

    task = loop.create_task(sc(spawn, settle))
    for _ in range(10000):
        if task.done():
            break
        if loop.runnable_now():
            loop.step()
        elif loop.next_timer() is not None:
            loop.advance_to_next_timer()
        else:
            raise SystemExit(f"simulated scenario {sc.__name__} is stuck")
    res = task.result()
    loop.hard_close()
    return res


def main():
    bad = 0
    for sc in SCENARIOS:
        real, sim = run_real(sc), run_sim(sc)
        ok = real == sim
        print(f"{sc.__name__}: {'same' if ok else 'DIFFERENT'}  real={real} sim={sim}")
        bad += not ok
    return 1 if bad else 0


if __name__ == "__main__":
    sys.exit(main())
