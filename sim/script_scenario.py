"""C10: the job script is a message to another party.  The simulated scheduler parses the directives
with its own reader and RUNS the received script with real bash from a foreign cwd with stdout/stderr
connected as the directives say; the result is compared with `cd <wd> && bash -e` on the bare spec in a
pristine copy of the project (differential), the directives with the options resolved by an
independent precedence chain, `gwf logs` with the job's real output, log cleaning with the rule."""
import os
import re
import shlex
import shutil
import subprocess

from . import fsx
from .world_scenario import OPTION_POOLS, WorldScenario

# independent tables (from the backends' documentation, not imported from gwf)
DEFAULTS = {
    "slurm": {"cores": 1, "memory": "1g", "walltime": "01:00:00", "nodes": None, "queue": None, "account": None,
              "constraint": None, "mail_type": None, "mail_user": None, "qos": None, "gres": None},
    "sge": {"cores": 1, "memory": "1g", "walltime": "01:00:00", "queue": None, "account": None},
    "lsf": {"queue": "normal", "memory": "4GB", "cores": 1},
}
PROJ_NAMES = ["p", "p", "proj dir", "p;echo INJECTED", "p$HOME", "p'q", 'p"q', "p&x", "p(1)", "p*", "p#h", "ü-dir"]

SPEC_LINES = [
    "echo line-{k} > {out}",
    "printf '%s\\n' \"a b\" 'c$d' >> {out}",
    "X={k}; echo \"value $X\" >> {out}",
    "echo \"to stdout {k}\"",
    "echo \"to stderr {k}\" >&2",
    "test -f workflow.py && echo in-project-dir >> {out}",
    "cat {inp} >> {out} 2>/dev/null || true",
    "echo 'single \"quoted\" $NOPE' >> {out}",
    "echo \"GWF_TARGET_NAME is set: ${{GWF_TARGET_NAME:+yes}}\" > /dev/null",
    "mkdir -p sub_{k} && touch sub_{k}/made",
    "cat <<EOF >> {out}\nheredoc {k}\nEOF",
    "if true; then echo branch >> {out}; fi",
    # shell variables named like scheduler options, and brace / percent tokens a template engine might eat
    "cores={k}; echo \"threads ${{cores}} ${{memory:-none}} ${{queue:-q}}\" >> {out}",
    "echo '{{0}} {{1}} {{job_name}} {{std_out}} {{cores}}' >> {out}",
    "echo \"100% %s %d %(name)s\" >> {out}",
]
FAIL_LINES = ["false", "cat no-such-file-{k}", "exit 3", "(exit 7)", "ls /nonexistent-{k} > /dev/null"]


def gen_spec(r, t, k):
    rel = (lambda p: os.path.relpath(p, t.wd)) if t.wd else (lambda p: p)
    out = rel(t.outputs[0]) if t.outputs else f"scratch_{k}.txt"
    inp = rel(t.inputs[0]) if t.inputs else "workflow.py"
    lines = []
    n = r.pick([1, 2, 3, 4, 6])
    fail_at = r.randrange(n) if r.chance(0.35) else None
    for i in range(n):
        if i == fail_at:
            lines.append(r.pick(FAIL_LINES).format(k=k))
        lines.append(r.pick(SPEC_LINES).format(k=f"{k}{i}", out=shlex.quote(out), inp=shlex.quote(inp)))
    for o in t.outputs[1:]:
        lines.append(f"echo more > {shlex.quote(rel(o))}")
    body = "\n".join(lines)
    style = r.pick(["nl", "nl", "nonl", "leading", "blank"])
    if style == "nl":
        body += "\n"
    elif style == "leading":
        body = "\n" + body + "\n"
    elif style == "blank":
        body += "\n\n"
    return body


class ScriptScenario(WorldScenario):
    def __init__(self, props, profile, seed=None, replay=None, keep_trace=True):
        super().__init__(props, profile, seed=seed, replay=replay, keep_trace=keep_trace)
        if not self.replaying:
            r = self.rng.fork("specs")
            self.knobs["proj_name"] = r.pick(PROJ_NAMES)
            for k, t in enumerate(self.model.targets.values()):
                if r.chance(0.8):
                    t.spec_body = gen_spec(r, t, k)
            if r.chance(0.5):
                pool = OPTION_POOLS.get(self.knobs["backend"], {})
                for key, vals in pool.items():
                    if r.chance(0.3):
                        self.model.defaults[key] = r.pick(vals)
            self.knobs["model"] = self.model.to_json()

    def setup(self, w):
        super().setup(w)
        self.job_runs = {}
        self.open_logs = {}
        w.on_job_start_extra = lambda j: self._open_logs(w, j)

    def finale(self, w):
        for hs in self.open_logs.values():
            for h in hs:
                if h is not None:
                    h.close()
        self.open_logs = {}
        super().finale(w)

    # ------------------------------------------------------------------ expected options
    def expected_options(self, w, t):
        backend = w.backend
        chain = dict(DEFAULTS[backend])
        srcs = [w.model.defaults]
        if t.tpl_options is not None:
            srcs.append(t.tpl_options)
        srcs.append(t.options)
        user = {}
        for s in srcs:
            user.update(s)
        unknown = sorted(k for k in user if k not in chain)
        chain.update({k: v for k, v in user.items() if k in chain})
        resolved = {k: v for k, v in chain.items() if v is not None}
        return resolved, unknown

    def expected_directives(self, w, t):
        opts, unknown = self.expected_options(w, t)
        b = w.backend
        exp = []
        logs = os.path.join(w.proj, ".gwf", "logs", t.name)
        if b == "slurm":
            flags = {"nodes": "-N ", "cores": "-c ", "memory": "--mem=", "walltime": "-t ", "queue": "-p ", "account": "-A ",
                     "constraint": "-C ", "mail_type": "--mail-type=", "mail_user": "--mail-user=", "qos": "--qos=",
                     "gres": "--gres="}
            exp.append(f"--job-name={t.name}")
            for k, v in opts.items():
                exp.append(f"{flags[k]}{v}")
            mode = w.knobs.get("log_mode") or "full"
            if mode == "full":
                exp += [f"--output={logs}.stdout", f"--error={logs}.stderr"]
            elif mode == "merged":
                exp += [f"--output={logs}.stdout"]
            else:
                exp += ["--output=/dev/null"]
        elif b == "sge":
            exp += [f"-N {t.name}", "-V", "-w v", "-cwd"]
            for k, v in opts.items():
                if k == "cores":
                    exp.append(f"-pe smp {v}")
                elif k == "memory":
                    num = int(re.sub(r"[^0-9]", "", str(v)))
                    unit = re.sub(r"[0-9]", "", str(v))
                    exp.append(f"-l h_vmem={num // int(opts.get('cores', 1))}{unit}")
                elif k == "walltime":
                    exp.append(f"-l h_rt={v}")
                elif k == "queue":
                    exp.append(f"-q {v}")
                elif k == "account":
                    exp.append(f"-P {v}")
            exp += [f"-o {logs}.stdout", f"-e {logs}.stderr"]
        elif b == "lsf":
            if "memory" in opts:
                exp += [f"-M {opts['memory']}",
                        f'-R "select[mem>{opts["memory"]}] rusage[mem={opts["memory"]}] span[hosts=1]"']
            if "cores" in opts:
                exp.append(f"-n {opts['cores']}")
            if "queue" in opts:
                exp.append(f"-q {opts['queue']}")
            exp += [f"-oo {logs}.stdout", f"-eo {logs}.stderr", f"-J {t.name}"]
        return sorted(exp), unknown

    # ------------------------------------------------------------------ hooks
    def _gwf(self, w, op):
        argv = op["argv"]
        if argv[0] == "run" and "--dry-run" not in argv:
            logs_before = set(os.listdir(w.path(".gwf/logs"))) if os.path.isdir(w.path(".gwf/logs")) else set()
            res = super()._gwf(w, op)
            if res is None or res.exit_code != 0 or res.exception is not None:
                return res
            marker = {"slurm": "#SBATCH", "sge": "#$", "lsf": "#BSUB"}[w.backend]
            for name, jid, deps in res.accepted:
                t = w.model.targets.get(name)
                if t is None:
                    continue
                j = w.cluster.jobs[jid]
                got = sorted(j.directives.get("_raw", []))
                want, unknown = self.expected_directives(w, t)
                w.probe("directive_checks")
                if got != want:
                    w.flag("C10", "directives", f"target {name}: scheduler received {got}; resolved options give {want}",
                           backend_kind=w.backend)
                for u in unknown:
                    w.probe("unknown_options")
                    if f"Option '{u}' used in '{name}' is not supported" not in (res.output or ""):
                        w.flag("C10", "unknown_option_without_warning", f"{name}: option {u} dropped silently")
            # log cleaning: only logs of targets that are no longer part of the workflow may disappear
            logs_after = set(os.listdir(w.path(".gwf/logs")))
            gone = logs_before - logs_after
            current = set(w.model.targets)
            for fn in sorted(gone):
                base = os.path.splitext(fn)[0]
                w.probe("logs_deleted")
                if base in current:
                    w.flag("C10", "log_of_current_target_deleted", fn)
                if not w.clean_logs:
                    w.flag("C10", "log_deleted_with_cleaning_off", fn)
            return res
        if argv[0] == "run":
            logs_before = set(os.listdir(w.path(".gwf/logs"))) if os.path.isdir(w.path(".gwf/logs")) else set()
            res = super()._gwf(w, op)
            logs_after = set(os.listdir(w.path(".gwf/logs"))) if os.path.isdir(w.path(".gwf/logs")) else set()
            if logs_before - logs_after:
                w.flag("C10", "log_deleted_by_dry_run", f"{sorted(logs_before - logs_after)}")
            return res
        return super()._gwf(w, op)

    def apply(self, w, op):
        if op["op"] == "finish" and w.cluster is not None and self.profile.get("real_bash"):
            j = w.cluster.jobs.get(op["id"])
            if j is not None and j.phase == "running":
                self.run_script_job(w, j)
            return
        if op["op"] == "logs":
            return self._logs(w, op)
        if op["op"] in ("rename", "remove"):
            from .cmd_scenario import CmdScenario

            return CmdScenario.apply_extra(self, w, op)
        return super().apply(w, op)

    def _propose(self, w, r):
        base = super()._propose(w, r)
        x = r.random()
        if self.job_runs and x < 0.15:
            return {"op": "logs", "t": r.pick(sorted(self.job_runs)), "stderr": r.chance(0.4)}
        if x < 0.19 and w.model.targets:
            return {"op": "rename", "t": r.pick(list(w.model.targets)), "new": f"R{w.model.counter}"}
        if x < 0.22 and len(w.model.targets) > 1 and w.model.endpoints():
            return {"op": "remove", "t": r.pick(w.model.endpoints())}
        return base

    # ------------------------------------------------------------------ executing a job for real
    def _log_paths(self, j):
        out_path = err_path = None
        for d in j.directives.get("_raw", []):
            for pre, kind in (("--output=", "o"), ("--error=", "e"), ("-o ", "o"), ("-e ", "e"), ("-oo ", "o"), ("-eo ", "e")):
                if d.startswith(pre):
                    if kind == "o":
                        out_path = d[len(pre):]
                    else:
                        err_path = d[len(pre):]
        return out_path, err_path

    def _open_logs(self, w, j):
        """The scheduler opens the job's log files when the job STARTS (Slurm and LSF -oo/-eo truncate, SGE
        appends) and keeps them open: what happens to those paths afterwards does not reach the job's output."""
        if not self.profile.get("real_bash") or j.id in self.open_logs:
            return
        out_path, err_path = self._log_paths(j)
        mode = "ab" if w.backend == "sge" else "wb"
        saved = fsx.FS.current
        fsx.FS.current = None
        try:
            hs = []
            for pth in (out_path, err_path):
                try:
                    hs.append(fsx._real_open(pth, mode) if pth else None)
                except OSError:
                    hs.append(None)
            self.open_logs[j.id] = hs
            if mode == "wb":
                # the log now belongs to the run in progress: what an earlier run wrote is gone
                self.job_runs.pop(j.name, None)
        finally:
            fsx.FS.current = saved

    def run_script_job(self, w, j):
        t_name = j.name
        spec = None
        t = w.model.targets.get(t_name)
        marker = {"slurm": "#SBATCH", "sge": "#$", "lsf": "#BSUB"}[w.backend]
        raw = j.directives.get("_raw", [])
        out_path = err_path = None
        for d in raw:
            for pre, kind in (("--output=", "o"), ("--error=", "e"), ("-o ", "o"), ("-e ", "e"), ("-oo ", "o"), ("-eo ", "e")):
                if d.startswith(pre):
                    if kind == "o":
                        out_path = d[len(pre):]
                    else:
                        err_path = d[len(pre):]
        foreign = os.path.join(w.base, "elsewhere")
        ref_root = os.path.join(w.base, "ref")
        shutil.rmtree(ref_root, ignore_errors=True)
        ref_proj = os.path.join(ref_root, os.path.basename(w.proj))
        shutil.copytree(w.proj, ref_proj, symlinks=True)
        script_file = os.path.join(w.base, "job.sh")
        with fsx._real_open(script_file, "w") as f:
            f.write(j.script)
        env = dict(os.environ, SLURM_JOBID=j.id, SGE_JOBID=j.id, LSB_JOBID=j.id)
        env.pop("GWF_TARGET_NAME", None)
        saved = fsx.FS.current
        fsx.FS.current = None
        try:
            held = self.open_logs.pop(j.id, None) or [None, None]
            so = (held[0] or fsx._real_open(out_path, "wb")) if out_path else subprocess.DEVNULL
            if err_path:
                se = held[1] or fsx._real_open(err_path, "wb")
            elif w.backend == "slurm" and out_path and out_path != "/dev/null":
                se = subprocess.STDOUT  # Slurm: without --error stderr goes where --output goes
            else:
                se = subprocess.DEVNULL if w.backend == "slurm" else subprocess.DEVNULL
            cp = subprocess.run(["bash", script_file], cwd=foreign, stdin=subprocess.DEVNULL, stdout=so, stderr=se, env=env)
            for fh in (so, se):
                if hasattr(fh, "close"):
                    fh.close()
            # reference: the bare spec in a pristine copy
            the_spec = w.job_model.get(j.id, {}).get("spec", "")
            ref_out = os.path.join(w.base, "ref.stdout")
            ref_err = os.path.join(w.base, "ref.stderr")
            with fsx._real_open(ref_out, "wb") as ro, fsx._real_open(ref_err, "wb") as re_:
                jwd = w.job_model.get(j.id, {}).get("wd", "")
                ref_wd = os.path.join(ref_proj, jwd) if jwd else ref_proj
                rp = subprocess.run(["bash", "-e", "-c", the_spec], cwd=ref_wd, stdin=subprocess.DEVNULL, stdout=ro,
                                    stderr=re_, env=dict(env, GWF_TARGET_NAME=t_name, GWF_JOBID=j.id))
        finally:
            fsx.FS.current = saved
        w.probe("scripts_executed")
        # compare exit status and the resulting project files
        ok_exit = (cp.returncode == 0) == (rp.returncode == 0)
        if not ok_exit:
            w.flag("C10", "exit_status_differs", f"job of {t_name}: script exit {cp.returncode}, `bash -e` on the spec "
                   f"exit {rp.returncode} (project dir {os.path.basename(w.proj)!r})", dirname=os.path.basename(w.proj))
        a = self._tree(w.proj)
        b = self._tree(ref_proj)
        if a != b and not w.pending_violation:
            diff = sorted(set(a.items()) ^ set(b.items()))[:4]
            w.flag("C10", "effect_differs", f"job of {t_name} in {os.path.basename(w.proj)!r}: files differ from `cd wd && "
                   f"bash -e spec`: {[d[0] for d in diff]}", dirname=os.path.basename(w.proj))
        stray = [f for f in os.listdir(foreign)]
        if stray and not w.pending_violation:
            w.flag("C10", "ran_in_wrong_directory", f"job of {t_name} left {stray} in the submission directory",
                   dirname=os.path.basename(w.proj))
            for f in stray:
                p = os.path.join(foreign, f)
                shutil.rmtree(p, ignore_errors=True) if os.path.isdir(p) else os.remove(p)
        # restamp what the job wrote with simulated time
        for root, dirs, files in os.walk(w.proj):
            for fn in files:
                p = os.path.join(root, fn)
                if os.stat(p).st_mtime > 2_000_000:
                    w.fs.stamp(p)
        with fsx._real_open(ref_out, "rb") as f:
            self.job_runs[t_name] = dict(stdout=f.read(), mode=w.knobs.get("log_mode") or "full", id=j.id)
        with fsx._real_open(ref_err, "rb") as f:
            self.job_runs[t_name]["stderr"] = f.read()
        # (the log of a target that has left the workflow meanwhile may legitimately have been cleaned away)
        if (w.knobs.get("log_mode") or "full") == "full" and out_path and not w.pending_violation \
                and t_name in w.model.targets:
            try:
                with fsx._real_open(out_path, "rb") as f:
                    got = f.read()
            except FileNotFoundError:
                got = b"<the log file does not exist>"
            want_out = self.job_runs[t_name]["stdout"]
            if w.backend == "sge" and got != want_out and got.endswith(want_out):
                # Grid Engine appends to an existing -o/-e file: the latest run's output is the end of the log
                w.probe("sge_log_holds_earlier_runs_too")
            elif got != want_out:
                w.flag("C10", "stdout_log_differs", f"{t_name}: log has {got[:80]!r}, spec printed "
                       f"{self.job_runs[t_name]['stdout'][:80]!r}")
        w.cluster.finish(j, "ok" if cp.returncode == 0 else "failed")

    def _tree(self, root):
        out = {}
        for r_, dirs, files in os.walk(root):
            if "/.gwf" in r_ or r_.endswith("/.gwf"):
                continue
            for fn in files:
                p = os.path.join(r_, fn)
                with fsx._real_open(p, "rb") as f:
                    out[os.path.relpath(p, root)] = f.read()
        return out

    def _logs(self, w, op):
        info = self.job_runs.get(op["t"])
        if info is None or info["mode"] == "none" or op["t"] not in w.model.targets:
            return
        if op["stderr"] and info["mode"] != "full":
            return
        argv = ["logs", "--no-pager"] + (["-e"] if op["stderr"] else []) + [op["t"]]
        res = w.gwf(argv, "root")
        self._exit_ok(w, res, argv)
        if res.exit_code != 0 or res.exception is not None:
            return
        want = info["stderr"] if op["stderr"] else info["stdout"]
        got = (res.stdout or res.output).encode()
        w.probe("logs_checks")
        if info["mode"] == "merged":
            if not all(ln in got for ln in want.splitlines()):
                w.flag("C10", "logs_output", f"gwf logs {op['t']} lacks lines of the job's stdout")
        elif w.backend == "sge" and got.rstrip(b"\n").endswith(want.rstrip(b"\n")):
            pass  # Grid Engine appends: the latest run's output is what the log ends with
        elif got.rstrip(b"\n") != want.rstrip(b"\n"):
            w.flag("C10", "logs_output", f"gwf {' '.join(argv)} printed {got[:100]!r}; the latest run wrote {want[:100]!r}")
