from checks._world_common import ASSUMPTIONS, COMPONENTS, make, simplify_knobs, simplify_op  # noqa: F401

PROP = "C07"
LEVEL = "exploration"
RUNS = {"quick": 4000, "thorough": 120000}
BUDGET_S = {"quick": 50, "thorough": 840}
CHUNK = 50
RULE = ("One evaluation = one seeded history on Slurm/SGE/LSF/local pool with adversarial execution (any legal start/finish order, success or any failure kind, scheduler-side cancels, prerequisites submitted in earlier invocations) and with scheduler transitions injected BETWEEN the submission commands of a running `gwf run`. Layer 1: the dependency expression received (afterok list, hold_jid list, done() conjunction, deps=[...]) parses in the simulated scheduler's own grammar to exactly the ids of the plan's prerequisites. Layer 2 (invariant of the composition): at every job start, every job that was producing the target's inputs at its submission instant has finished, and on Slurm/LSF/local finished successfully. Non-trivial = at least one job with in-flight producers started.")
RULE += (" Histories also contain interrupted or failing gwf invocations (hard kill at a seam event, Ctrl-C, ENOSPC, a failing or "
         "unreachable scheduler command) - only the invocations after them are judged - and 1-2 % of the runs use 140-260 targets.")
PROFILE = dict(
    nontrivial_probes=["job_starts_with_producers"],
    backends=["slurm", "slurm", "sge", "lsf", "local", "local"],
    sizes=[2, 3, 4, 5, 6, 8],
    lengths=[10, 14, 20, 30],
    interleave=0.35,
    weights=dict(faulted=0.8, run=3, gwf_cancel=0.5, pool_restart=0.2, start=4, finish=4, sched_cancel=0.6, purge=0.5, acct_flush=0.3, modify_source=0.5,
                 delete_output=0.5, status=0.2, advance=0.3),
    p_job_ok=0.55, p_hashing=0.2, p_huge=0.01,
)
make_scenario = make({"C07"}, PROFILE)
