from checks._world_common import ASSUMPTIONS, COMPONENTS, make, simplify_knobs, simplify_op  # noqa: F401
from sim.converge_scenario import ConvergeScenario

PROP = "C06"
LEVEL = "exploration"
RUNS = {"quick": 3000, "thorough": 80000}
BUDGET_S = {"quick": 50, "thorough": 840}
CHUNK = 40
RULE = ('One evaluation = one seeded scenario on Slurm/SGE/LSF/local pool: arbitrary pre-history (runs, failures, cancellations, perturbations) drained so that nothing is pending/running -> `gwf run [patterns]` -> the simulated scheduler executes every submitted job successfully in a seeded legal order (any startable job may start, any running job may finish; on the local pool any interleaving of loop iterations), each job writing its declared outputs at simulated time -> oracle: `gwf status` shows every cone target with outputs completed and a second run submits only output-less targets; then 0-3 rounds of one perturbation (clock first advanced by more than one timestamp granule): the next run must submit exactly consumers-of-modified-source / producer-of-deleted-output + transitive dependents + output-less targets. Liveness: the drain must finish within 50+60n driver steps. Not injected (excluded by the premise): clock skew, backward clock jumps, job failures after the premise point, stale accounting between run and observation.')
RULE += (" Histories also contain interrupted or failing gwf invocations (hard kill at a seam event, Ctrl-C, ENOSPC, a failing or "
         "unreachable scheduler command) - only the invocations after them are judged - and 1-2 % of the runs use 140-260 targets.")
PROFILE = dict(
    nontrivial_probes=["convergence_checks"],
    backends=["slurm", "slurm", "sge", "lsf", "local", "local"],
    sizes=[1, 2, 3, 4, 5, 6, 8, 14],
    lengths=[0, 2, 4, 8, 12],
    cwds=["root"],
    weights=dict(links=0.4, faulted=0.3, run=2, status=0.3, start=2, finish=2, sched_cancel=0.5, purge=0.5, acct_flush=0.3, modify_source=0.7,
                 delete_output=0.7, touch_file=0.3, set_file=0.5, edit_spec=0.5, advance=0.5),
    p_job_ok=0.5, p_hashing=0.4, p_huge=0.01, p_transient=0.25,
    # stale accounting between the run and the observation is excluded by the statement's premise
    # (the scheduler would report two different histories to the two invocations)
    force_knobs={"acct_lag": False},
)
make_scenario = make({"C06"}, PROFILE, ConvergeScenario)
