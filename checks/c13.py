from checks._pool_common import ASSUMPTIONS, COMPONENTS, make, simplify_knobs, simplify_op  # noqa: F401

PROP = "C13"
RUN_WALL_S = 5  # wall-clock limit of one simulated run (a run that never returns is a violation)
LEVEL = "exploration"
RUNS = {"quick": 60000, "thorough": 2000000}
BUDGET_S = {"quick": 45, "thorough": 840}
CHUNK = 400
RULE = ('One evaluation = one seeded run as in C11 plus fault injection (spawn failure ENOENT/EAGAIN, log open/write error, slow spawn, slow death after SIGKILL, exit/time-out coincidence, output larger than the pipe capacity on either stream so that a reader that does not drain both blocks the process, scripts with children - known finding F-C13-2). Oracles: a final state never changes; at most one spawn per task; after the faults stop every accepted task reaches a final state within 50+20n driver steps; that state is in the admissible set computed by an independent model from exit code, time limit, cancel timing, start/log failure and dependency outcomes; logs equal the process output; no process outlives a final state. Non-trivial = some task ended other than completed, or >=2 tasks; distinct = different event-log digest.')
make_scenario = make({"C13"}, "pool")
