from checks._world_common import ASSUMPTIONS, COMPONENTS, make, simplify_knobs, simplify_op  # noqa: F401
from sim.cmd_scenario import CmdScenario

PROP = "C05"
LEVEL = "exploration"
RUNS = {"quick": 3000, "thorough": 100000}
BUDGET_S = {"quick": 50, "thorough": 840}
CHUNK = 50
RULE = ("One evaluation = one seeded history with composite steps status -> run --dry-run -> run from the same state (three-way agreement inside the cone), `gwf status` with every combination of -s/--endpoints/patterns/-f default|summary compared to the restriction of the full table computed with the harness' own filter semantics (including empty restrictions), and purity snapshots (all project files incl. logs of renamed/removed targets: content+mtime; parsed .gwf/*.json; scheduler mutation journal) around status and dry-run; targets are renamed, removed and added along the way. Non-trivial = at least one of these comparisons ran.")
RULE += (" Histories also contain interrupted or failing gwf invocations (hard kill at a seam event, Ctrl-C, ENOSPC, a failing or "
         "unreachable scheduler command) - only the invocations after them are judged - and 1-2 % of the runs use 140-260 targets.")
PROFILE = dict(
    nontrivial_probes=['purity_checks', 'status_dryrun_run_triples', 'filtered_status_checks'],
    sizes=[0, 1, 2, 3, 3, 4, 4, 5, 6, 8],
    backends=["slurm", "slurm", "sge", "lsf", "local"],
    weights=dict(status_concurrent=0.5, triple=3, faulted=0.5, pool_restart=0.2, status=1, status_filtered=3, dry_run=1.5, run=1, start=2, finish=2, sched_cancel=0.7,
                 purge=0.5, acct_flush=0.5, modify_source=0.7, delete_output=0.7, edit_spec=0.5, advance=0.5, rename=0.5, remove=0.3,
                 add=0.3),
    p_nested=0.1, p_job_ok=0.5, spec_variety=True, p_hashing=0.5, p_huge=0.01,
)
make_scenario = make({"C05"}, PROFILE, CmdScenario)
