#!/venv/bin/python
"""The simulated sacct / squeue / bjobs honour their documented output options (they do not just print what gwf
happens to expect): header unless --noheader, '|' separation only with --parsable2, job steps unless
--allocations, format strings.  Assertions only; prints 'ok'."""
import os
import sys

sys.path.insert(0, os.path.dirname(os.path.dirname(os.path.abspath(__file__))))
from sim.cluster import Cluster  # noqa: E402
from sim.trace import Trace  # noqa: E402


def main():
    c = Cluster("slurm", Trace(keep=False), 5)
    rc, out, err = c._slurm_sbatch(["--parsable"], "#!/bin/bash\n#SBATCH --job-name=A\necho\n")
    assert (rc, out) == (0, "5\n"), (rc, out, err)
    j = c.jobs["5"]
    c.start(j)
    c.finish(j, "ok")
    c.acct_flush()
    full = ["--noheader", "--parsable2", "--format=jobid,state", "--allocations", "--jobs", "5"]
    assert c._slurm_sacct(full, None)[1] == "5|COMPLETED\n"
    assert c._slurm_sacct(full[1:], None)[1].splitlines()[0] == "JobID|State"
    steps = c._slurm_sacct(["-n", "-P", "-o", "jobid,state", "-j", "5"], None)[1].splitlines()
    assert steps == ["5|COMPLETED", "5.batch|COMPLETED", "5.extern|COMPLETED"], steps
    assert "|" not in c._slurm_sacct(["--noheader", "--format=jobid,state", "-X", "-j", "5"], None)[1]
    assert c._slurm_sacct(["--parsable", "-n", "-X", "--format=jobid,state", "-j", "5"], None)[1] == "5|COMPLETED|\n"
    assert c._slurm_sacct(["--bogus", "-j", "5"], None)[0] != 0
    c._slurm_sbatch(["--parsable"], "#!/bin/bash\n#SBATCH --job-name=B\necho\n")
    assert c._slurm_squeue(["--noheader", "--format=%i;%t", "--all"], None)[1] == "5;CD\n6;PD\n"
    assert c._slurm_squeue(["--format=%i;%t"], None)[1].splitlines()[0] == "JOBID;ST"
    assert c._slurm_squeue([], None)[1].split()[0] == "JOBID"
    assert c._slurm_squeue(["-h", "-o", "%.6i|%T"], None)[1].splitlines()[1] == "     6|PENDING"
    lsf = Cluster("lsf", Trace(keep=False), 9)
    rc, out, err = lsf._lsf_bsub([], "#!/bin/bash\n#BSUB -J A\necho\n")
    assert rc == 0, (rc, out, err)
    assert lsf._lsf_bjobs(["-noheader", "-o", "stat", "9"], None)[1] == "PEND\n"
    assert lsf._lsf_bjobs(["-o", "stat", "9"], None)[1] == "STAT\nPEND\n"
    assert lsf._lsf_bjobs(["-noheader", "9"], None)[1].split()[:3] == ["9", "user", "PEND"]
    assert lsf._lsf_bjobs(["-noheader", "-o", "stat", "77"], None)[2] == "Job <77> is not found\n"
    print("ok")


if __name__ == "__main__":
    main()
