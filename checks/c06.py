from checks._world_common import ASSUMPTIONS, COMPONENTS, make, simplify_knobs, simplify_op  # noqa: F401
from sim.converge_scenario import ConvergeScenario

PROP = "C06"
LEVEL = "exploration"
RUNS = {"quick": 2000, "thorough": 80000}
BUDGET_S = {"quick": 50, "thorough": 840}
CHUNK = 40
RULE = "placeholder"
PROFILE = dict(
    nontrivial_probes=["convergence_checks"],
    backends=["slurm", "slurm", "sge", "lsf", "local", "local"],
    sizes=[1, 2, 3, 4, 5, 6, 8],
    lengths=[0, 2, 4, 8, 12],
    cwds=["root"],
    weights=dict(run=2, status=0.3, start=2, finish=2, sched_cancel=0.5, purge=0.5, acct_flush=0.3, modify_source=0.7,
                 delete_output=0.7, touch_file=0.3, set_file=0.5, edit_spec=0.5, advance=0.5),
    p_job_ok=0.5, p_hashing=0.4,
    # stale accounting between the run and the observation is excluded by the statement's premise
    # (the scheduler would report two different histories to the two invocations)
    force_knobs={"acct_lag": False},
)
make_scenario = make({"C06"}, PROFILE, ConvergeScenario)
