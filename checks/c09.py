from checks._world_common import ASSUMPTIONS, COMPONENTS, simplify_knobs, simplify_op  # noqa: F401
from sim.fault_scenario import FaultEnumScenario

PROP = "C09"
RUN_WALL_S = 900  # wall-clock limit of one simulated run (a run that never returns is a violation)
LEVEL = "fault_enumeration"
RUNS = {"quick": 120, "thorough": 6000}
BUDGET_S = {"quick": 50, "thorough": 840}
CHUNK = 2
RULE = ('One evaluation = one execution of `gwf run` with one injected interruption. Scenarios (workflow <= 6 targets + pre-history with in-flight/failed jobs) are sampled; per scenario the interruption points of its run are ENUMERATED from a fault-free dry execution: every scheduler command x {non-zero exit with message, error on stderr with exit 0, garbage stdout, silent non-zero exit}, Ctrl-C at every seam event, hard kill before every seam event and after every scheduler command (job accepted, id lost), ENOSPC at every file mutation; on the local pool every request/reply: kill before/after each send, garbage reply, connection closed, connection reset (later sends fail with EPIPE). After each: the next `gwf status` must start, neither the interrupted run nor the next run may submit a target whose accepted job is still pending/running (kill-inside-submission exempt for that job), remaining targets get prerequisites pointing at jobs accepted before the interruption, hashes only for accepted submissions. Non-trivial = scenario whose run accepted at least one job.')
PROFILE = dict(
    backends=["slurm", "slurm", "sge", "lsf", "local"],
    sizes=[1, 2, 3, 3, 4, 5, 6, 6, 13],
    lengths=[0, 0, 2, 4, 6],
    cwds=["root"],
    weights=dict(run=2, faulted=0.4, start=2, finish=2, sched_cancel=0.4, purge=0.3, acct_flush=0.3, modify_source=0.3,
                 delete_output=0.3, edit_spec=0.3),
    p_nested=0.25, p_nested_submit=0.3, p_job_ok=0.6, p_hashing=0.5, p_kill_streak=0.3,
)


def make_scenario(seed=None, replay=None):
    return FaultEnumScenario({"C09"}, PROFILE, seed=seed, replay=replay, keep_trace=False)
