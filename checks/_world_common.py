"""Shared pieces of the Engine W checks."""
from sim.world_scenario import WorldScenario

COMPONENTS = {
    "real": [
        "gwf.cli.main and every plugin command through click (in-process, one incarnation per invocation)",
        "workflow.py loaded by gwf from a generated file; gwf.core.Graph, gwf.scheduling, gwf.filtering",
        "gwf.backends.base.TrackingBackend, SlurmOps/SGEOps/LSFOps, gwf.backends.utils.call, gwf.conf.FileConfig",
        "json, io.BufferedWriter/TextIOWrapper buffering, tmpfs for reads",
    ],
    "stub": [
        "sbatch/squeue/sacct/scancel, qsub/qstat/qdel, bsub/bjobs/bkill and their daemons (sim.cluster.Cluster at the "
        "subprocess.Popen / shutil.which names of gwf.backends.utils)",
        "job execution (a job's effect = its declared outputs and log files written at simulated time)",
        "wall clock and file timestamps (sim.fsx: mutations under the project directory are seam events)",
        "SIGKILL of gwf (freeze model: nothing after the kill point reaches durable state or the scheduler)",
    ],
}

ASSUMPTIONS = [
    "scheduler models are written from the schedulers' documentation; where undocumented they follow what gwf expects "
    "(bjobs exits 0 with empty stdout for an unknown id; squeue keeps finished jobs until purged)",
    "file timestamps come from the simulated clock; the oracle reads the same st_mtime_ns values gwf sees",
    "each invocation runs in-process with module-level tables, logging handlers, sys.path and click's tty hack restored "
    "to what a fresh interpreter would have",
    "sampling of histories, not enumeration: a clean batch is evidence, not proof",
]


def simplify_op(op):
    out = []
    if op["op"] == "gwf" and op.get("cwd") != "root":
        out.append(dict(op, cwd="root"))
    if op["op"] == "finish" and op.get("skew"):
        out.append({k: v for k, v in op.items() if k != "skew"})
    if op["op"] == "finish" and op.get("partial"):
        out.append({k: v for k, v in op.items() if k != "partial"})
    if op["op"] == "gwf" and len(op["argv"]) > 2:
        out.append(dict(op, argv=op["argv"][:-1]))
    return out


def simplify_knobs(knobs):
    out = []
    model = knobs["model"]
    # drop targets nobody depends on (endpoints), one at a time, from the back
    import json

    from sim.wfgen import WModel

    m = WModel.from_json(model)
    for name in reversed(list(m.targets)):
        if name in m.endpoints() and len(m.targets) > 1:
            m2 = m.clone()
            del m2.targets[name]
            out.append(dict(knobs, model=m2.to_json()))
    for k, v in (("cwd", "root"), ("tick_per_op", 0), ("sacct_batch", None), ("acct_lag", False), ("hashing", False),
                 ("kill_invalid_depend", False), ("log_mode", None), ("skew", False)):
        if knobs.get(k) != v:
            out.append(dict(knobs, **{k: v}))
    for t in m.targets.values():
        if t.in_shape != "list" or t.out_shape != "list" or any(s != "plain" for s in t.style.values()):
            m2 = m.clone()
            t2 = m2.targets[t.name]
            t2.in_shape = t2.out_shape = "list"
            t2.style = {}
            out.append(dict(knobs, model=m2.to_json()))
    return out


def make(props, profile, cls=WorldScenario):
    def make_scenario(seed=None, replay=None):
        return cls(props, profile, seed=seed, replay=replay, keep_trace=False)

    return make_scenario
