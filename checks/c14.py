from checks._pool_common import ASSUMPTIONS, COMPONENTS, make, simplify_knobs, simplify_op  # noqa: F401

PROP = "C14"
RUN_WALL_S = 5  # wall-clock limit of one simulated run (a run that never returns is a violation)
LEVEL = "exploration"
RUNS = {"quick": 20000, "thorough": 2000000}
BUDGET_S = {"quick": 45, "thorough": 840}
CHUNK = 400
RULE = ("One evaluation = one seeded run with one well-behaved and 1-3 misbehaving client connections (abort without close, abort right after enqueue, EOF, 26 kinds of malformed/ill-typed/unknown/over-long/truncated requests, cancel of unknown ids, dependency on never-issued ids) interleaved with the task events of C11. Oracles: every accepted task (also those accepted from malformed requests) reaches a final state; get_task_states on the healthy connection equals the pool's table at the instant of the answer and its key set equals the ids issued so far; ids never repeat; enqueue replies carry the id the scheduler assigned; after the faults stop a new task is accepted and run. Non-trivial = a client fault fired and a state query was answered.")
_pool = make({"C14"}, "pool_clients")

# every fifth run puts the real gwf CLI (Client, LocalOps, TrackingBackend) in the role of the well-behaved
# client of the same real pool while other connections misbehave (Engine W, backend local)
W_PROFILE = dict(
    backends=["local"], sizes=[1, 2, 3, 4, 5], lengths=[8, 12, 20],
    weights=dict(status=4, run=3, gwf_cancel=0.7, finish=4, bad_client=3, modify_source=0.3, delete_output=0.3,
                 advance=0.3),
    p_job_ok=0.6, p_hashing=0.1, nontrivial_probes=["backend_state_rows", "file_based_decisions"],
)


def make_scenario(seed=None, replay=None):
    from sim.world_scenario import WorldScenario

    if replay is not None:
        use_world = "backend" in replay["knobs"]
    else:
        use_world = seed % 5 == 0
    if use_world:
        return WorldScenario({"C14"}, W_PROFILE, seed=seed, replay=replay, keep_trace=False)
    return _pool(seed=seed, replay=replay)


def simplify_knobs(knobs):
    if "backend" in knobs:
        from checks._world_common import simplify_knobs as sk

        return sk(knobs)
    from checks._pool_common import simplify_knobs as sk

    return sk(knobs)


def simplify_op(op):
    from checks._pool_common import simplify_op as so

    try:
        return so(op)
    except KeyError:
        return []
