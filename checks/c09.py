from checks._world_common import ASSUMPTIONS, COMPONENTS, simplify_knobs, simplify_op  # noqa: F401
from sim.fault_scenario import FaultEnumScenario

PROP = "C09"
LEVEL = "fault_enumeration"
RUNS = {"quick": 160, "thorough": 6000}
BUDGET_S = {"quick": 50, "thorough": 840}
CHUNK = 2
RULE = "placeholder"
PROFILE = dict(
    backends=["slurm", "slurm", "sge", "lsf"],
    sizes=[1, 2, 3, 3, 4, 5, 6],
    lengths=[0, 0, 2, 4, 6],
    cwds=["root"],
    weights=dict(run=2, start=2, finish=2, sched_cancel=0.4, purge=0.3, acct_flush=0.3, modify_source=0.3,
                 delete_output=0.3, edit_spec=0.3),
    p_job_ok=0.6, p_hashing=0.5,
)


def make_scenario(seed=None, replay=None):
    return FaultEnumScenario({"C09"}, PROFILE, seed=seed, replay=replay, keep_trace=False)
