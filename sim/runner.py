"""Seeded search over runs, minimisation, replay files, known findings, evidence.

Exit codes of a check: 0 = property held on everything explored (KNOWN-FINDING lines allowed),
1 = `VIOLATION property=<id> replay=<path>` printed, 2 = HARNESS-ERROR (never a verdict).
"""
import argparse
import faulthandler
import hashlib
import importlib
import json
import multiprocessing
import os
import subprocess
import sys
import time
import traceback
from concurrent.futures import ProcessPoolExecutor, as_completed

from .common import HarnessError
from .prng import run_seed

ROOT = os.path.dirname(os.path.dirname(os.path.abspath(__file__)))
KNOWN_FILE = os.path.join(ROOT, "known_findings.json")


def load_check(prop):
    return importlib.import_module(f"checks.{prop.lower()}")


# ------------------------------------------------------------------------------------------
def _sig_key(sig):
    return (sig["property"], sig["rule"], tuple(sorted((k, str(v)) for k, v in sig["facets"].items())))


class RunTimeout(BaseException):
    """A single simulated run exceeded its wall-clock limit: some callback of the event loop (or an in-process
    invocation) never returned.  A step cap cannot bound that, so a timer interrupts the run."""


RUN_WALL_S = 30.0


def _run_one(chk, seed=None, replay=None, wall=None):
    """Sweeps run in-process (fast).  VERIF_FORK=1 gives every run of a sweep a process of its own as well."""
    if os.environ.get("VERIF_FORK", "0") == "1":
        return _run_one_forked(chk, seed=seed, replay=replay, wall=wall)
    return _run_one_here(chk, seed=seed, replay=replay, wall=wall)


def _run_one_forked(chk, seed=None, replay=None, wall=None):
    """One simulated run in a child process of its own (fork): whatever the code under test keeps at module or
    class level dies with it, as it would with the real gwf process or worker pool.  Everything that decides about
    a violation - confirmation, minimisation, replay - goes through here."""
    import pickle
    import traceback

    rfd, wfd = os.pipe()
    pid = os.fork()
    if pid == 0:
        code = 0
        try:
            os.close(rfd)
            try:
                data = pickle.dumps(_run_one_here(chk, seed=seed, replay=replay, wall=wall))
            except BaseException:
                data = pickle.dumps({"__error__": traceback.format_exc()})
                code = 3
            with os.fdopen(wfd, "wb") as f:
                f.write(data)
        finally:
            os._exit(code)
    os.close(wfd)
    chunks = []
    with os.fdopen(rfd, "rb") as f:
        while True:
            b = f.read(1 << 16)
            if not b:
                break
            chunks.append(b)
    _, status = os.waitpid(pid, 0)
    if not chunks:
        raise RuntimeError(f"simulated run (seed {seed}) died without a result: wait status {status}")
    res = pickle.loads(b"".join(chunks))
    if isinstance(res, dict) and "__error__" in res:
        raise RuntimeError("simulated run failed:\n" + res["__error__"])
    return res


def _run_one_here(chk, seed=None, replay=None, wall=None):
    import signal

    sc = chk.make_scenario(seed=seed, replay=replay)
    limit = wall or float(os.environ.get("VERIF_RUN_WALL_S", getattr(chk, "RUN_WALL_S", RUN_WALL_S)))

    def on_alarm(signum, frame):
        raise RunTimeout()

    old = signal.signal(signal.SIGALRM, on_alarm)
    signal.setitimer(signal.ITIMER_REAL, limit)
    try:
        sc.run()
        signal.setitimer(signal.ITIMER_REAL, 0)
        return sc.result()
    except RunTimeout:
        signal.setitimer(signal.ITIMER_REAL, 0)
        # a run that never finishes is a violation of the property under check (the system stopped making
        # progress), reported with the ops executed so far; the replay hangs the same way
        try:
            from sim.fsx import FS
            from sim.cluster import FakePopen

            FS.current = None
            FakePopen.cluster = None
        except Exception:
            pass
        return dict(seed=seed if seed is not None else (replay or {}).get("seed"), knobs=sc.knobs, ops=list(sc.ops),
                    digest=sc.trace.digest(),
                    violation={"property": chk.PROP, "rule": "no_progress", "facets": {"wall_limit": True}},
                    detail=f"the run did not finish within {limit:.0f} s of wall time: a callback of the event loop or "
                           f"an invocation never returned (livelock) after op #{len(sc.ops)}",
                    probes={}, faults={}, sim_seconds=0.0, iterations=0, abstract_states=0, schedule="", nontrivial=True,
                    extra={})
    finally:
        signal.setitimer(signal.ITIMER_REAL, 0)
        signal.signal(signal.SIGALRM, old)


def _worker(prop, verif_seed, lo, hi, tier, wall_cap):
    """Run seeds lo..hi-1; return an aggregate (small) plus full records of violating runs."""
    faulthandler.dump_traceback_later(wall_cap, exit=True)
    try:
        chk = load_check(prop)
        agg = dict(runs=0, nontrivial=set(), schedules=set(), probes={}, faults={}, sim_seconds=0.0,
                   abstract_states=0, iterations=0, violations=[], digests={}, samples=[], errors=[], extra={})
        for i in range(lo, hi):
            seed = run_seed(verif_seed, prop, i)
            try:
                r = _run_one(chk, seed=seed)
            except Exception:
                agg["errors"].append((i, seed, traceback.format_exc()))
                break
            agg["runs"] += r.get("extra", {}).pop("evaluations", 1)
            agg["scenarios"] = agg.get("scenarios", 0) + 1
            agg["digests"][i] = r["digest"]
            if r.get("nontrivial"):
                agg["nontrivial"].add(r["digest"][:16])
            agg["schedules"].add(hashlib.sha1(r.get("schedule", "").encode()).hexdigest()[:12])
            for k, v in r.get("probes", {}).items():
                agg["probes"][k] = agg["probes"].get(k, 0) + v
            for k, v in r.get("faults", {}).items():
                agg["faults"][k] = agg["faults"].get(k, 0) + v
            for k, v in r.get("extra", {}).items():
                agg["extra"][k] = agg["extra"].get(k, 0) + v
            agg["sim_seconds"] += r.get("sim_seconds", 0.0)
            agg["abstract_states"] += r.get("abstract_states", 0)
            agg["iterations"] += r.get("iterations", 0)
            if r.get("violations_all"):
                for v in r["violations_all"]:
                    if len(agg["violations"]) < 200:
                        agg["violations"].append(dict(i=i, seed=seed, signature=v["signature"], detail=v["detail"],
                                                      knobs=r["knobs"], ops=v["ops"], digest=None))
            elif r["violation"] is not None and len(agg["violations"]) < 40:
                agg["violations"].append(dict(i=i, seed=seed, signature=r["violation"], detail=r["detail"],
                                              knobs=r["knobs"], ops=r["ops"], digest=r["digest"]))
            if len(agg["samples"]) < 2 and r.get("nontrivial"):
                agg["samples"].append(dict(seed=seed, knobs=r["knobs"], ops=r["ops"][:40]))
        return agg
    finally:
        faulthandler.cancel_dump_traceback_later()


# ------------------------------------------------------------------------------------------
def minimise(chk, rec, budget_s=60.0, max_cand=2000):
    """ddmin over the op list, then per-op simplification, keeping the same signature."""
    want = _sig_key(rec["signature"])
    knobs = rec["knobs"]
    t0 = time.time()
    tried = [0]

    def fails(ops, kn=None):
        if tried[0] >= max_cand or time.time() - t0 > budget_s:
            return False
        tried[0] += 1
        try:
            r = _run_one_forked(chk, replay=dict(knobs=kn or knobs, ops=ops, seed=rec["seed"]), wall=min(float(getattr(chk, "RUN_WALL_S", RUN_WALL_S)), 5.0))
        except Exception:
            return False
        return r["violation"] is not None and _sig_key(r["violation"]) == want

    ops = list(rec["ops"])
    if rec["signature"]["rule"] == "no_progress":
        max_cand = 12  # every candidate that still hangs costs the wall limit
    if not fails(ops):
        return rec, 0  # not reproducible from the op list: reported as harness error by the caller
    n = 2
    while len(ops) >= 2:
        chunk = max(1, len(ops) // n)
        reduced = False
        for start in range(0, len(ops), chunk):
            cand = ops[:start] + ops[start + chunk:]
            if cand and fails(cand):
                ops = cand
                n = max(n - 1, 2)
                reduced = True
                break
        if not reduced:
            if chunk == 1:
                break
            n = min(len(ops), n * 2)
    # one-by-one removal to a local minimum
    changed = True
    while changed:
        changed = False
        for i in range(len(ops) - 1, -1, -1):
            cand = ops[:i] + ops[i + 1:]
            if cand and fails(cand):
                ops = cand
                changed = True
    # argument simplification supplied by the check (optional)
    simp = getattr(chk, "simplify_op", None)
    if simp is not None:
        for i in range(len(ops)):
            for cand_op in simp(ops[i]):
                cand = ops[:i] + [cand_op] + ops[i + 1:]
                if fails(cand):
                    ops = cand
    simp_k = getattr(chk, "simplify_knobs", None)
    if simp_k is not None:
        for kn in simp_k(knobs):
            if fails(ops, kn):
                knobs = kn
    out = dict(rec)
    out["ops"] = ops
    out["knobs"] = knobs
    r = _run_one_forked(chk, replay=dict(knobs=knobs, ops=ops, seed=rec["seed"]))
    out["signature"] = r["violation"]
    out["detail"] = r["detail"]
    out["digest"] = r["digest"]
    return out, tried[0]


def load_known():
    if not os.path.exists(KNOWN_FILE):
        return []
    with open(KNOWN_FILE) as f:
        data = json.load(f)
    return [e for e in data.get("findings", []) if e.get("status", "open") == "open"]


def match_known(sig, known):
    for e in known:
        if e["property"] != sig["property"] or e["rule"] != sig["rule"]:
            continue
        if not all(str(sig["facets"].get(k)) == str(v) for k, v in e.get("facets", {}).items()):
            continue
        if all(str(sig["facets"].get(k)) in [str(x) for x in vs] for k, vs in e.get("facets_in", {}).items()):
            return e
    return None


def write_replay(prop, rec, tag):
    os.makedirs(os.path.join(ROOT, "replays"), exist_ok=True)
    path = os.path.join(ROOT, "replays", f"{prop}-{tag}.json")
    with open(path, "w") as f:
        json.dump(dict(property=prop, seed=rec["seed"], knobs=rec["knobs"], ops=rec["ops"],
                       signature=rec["signature"], detail=rec["detail"], digest=rec["digest"]), f, indent=1,
                  sort_keys=True, default=repr)
    return path


def replay_file(prop, path, quiet=False):
    """Execute a replay file in this process. Returns (reproduced, result)."""
    chk = load_check(prop)
    with open(path) as f:
        rp = json.load(f)
    r = _run_one(chk, replay=rp)
    same_sig = r["violation"] is not None and _sig_key(r["violation"]) == _sig_key(rp["signature"])
    same_digest = r["digest"] == rp["digest"] or rp.get("digest") is None
    if rp.get("digest") is None:
        print(f"digest={r['digest']}")  # a replay file without a digest: tell the caller what a fresh interpreter gives
    if not quiet:
        print(f"replay {path}: violation={r['violation']} detail={r['detail']}")
        print(f"  signature {'matches' if same_sig else 'DIFFERS'}; event-log digest {'matches' if same_digest else 'DIFFERS'}")
    return same_sig and same_digest, r


def replay_in_fresh_process(prop, path):
    env = dict(os.environ, PYTHONHASHSEED="0")
    cp = subprocess.run([sys.executable, os.path.join(ROOT, "check"), prop, "--replay", path, "--quiet"],
                        env=env, cwd=ROOT, capture_output=True, text=True, timeout=300)
    return cp.returncode == 1 and "VIOLATION" in cp.stdout, cp.stdout + cp.stderr


def _remove_stale_scratch():
    """Scratch directories of workers that no longer exist (a killed sweep) are removed."""
    import re
    import shutil

    base = "/dev/shm" if os.path.isdir("/dev/shm") else os.environ.get("TMPDIR", "/tmp")
    try:
        names = os.listdir(base)
    except OSError:
        return
    for n in names:
        m = re.fullmatch(r"gwfsim-(\d{7})", n)
        if m and not os.path.exists(f"/proc/{int(m.group(1))}"):
            shutil.rmtree(os.path.join(base, n), ignore_errors=True)


# ------------------------------------------------------------------------------------------
def main(argv=None):
    ap = argparse.ArgumentParser(prog="check")
    ap.add_argument("prop")
    ap.add_argument("--tier", default=os.environ.get("VERIF_TIER", "quick"), choices=["quick", "thorough"])
    ap.add_argument("--replay")
    ap.add_argument("--quiet", action="store_true")
    ap.add_argument("--runs", type=int)
    ap.add_argument("--workers", type=int, default=int(os.environ.get("VERIF_WORKERS", "0")) or None)
    ap.add_argument("--no-evidence", action="store_true")
    ap.add_argument("--no-minimise", action="store_true")
    ap.add_argument("--dump-digests", help="write {run index: event-log digest} as JSON (determinism self-test)")
    args = ap.parse_args(argv)
    prop = args.prop.upper()
    sys.path.insert(0, ROOT)
    try:
        chk = load_check(prop)
    except ModuleNotFoundError:
        print(f"HARNESS-ERROR unknown check {prop}")
        return 2

    if args.replay:
        ok, r = replay_file(prop, args.replay, quiet=args.quiet)
        if ok:
            print(f"VIOLATION property={prop} replay={args.replay}")
            return 1
        if r["violation"] is not None:
            print(f"replay produced a different outcome: {r['violation']} {r['detail']}")
            return 2
        print("replay: no violation")
        return 0

    _remove_stale_scratch()
    verif_seed = int(os.environ.get("VERIF_SEED", "0"))
    tier = args.tier
    os.environ["VERIF_DEPTH"] = tier  # the thorough tier also draws longer histories and larger workflows
    n_runs = args.runs or chk.RUNS[tier]
    budget = float(os.environ.get("VERIF_BUDGET_S", chk.BUDGET_S[tier]))
    workers = args.workers or min(16, os.cpu_count() or 1)
    chunk = max(1, min(getattr(chk, "CHUNK", 200), n_runs // (workers * 4) or 1))
    print(f"check {prop} tier={tier} VERIF_SEED={verif_seed} runs<={n_runs} budget={budget:.0f}s workers={workers}")
    t0 = time.time()
    total = dict(runs=0, nontrivial=set(), schedules=set(), probes={}, faults={}, sim_seconds=0.0, abstract_states=0,
                 iterations=0, violations=[], samples=[], extra={})
    digests = {}
    errors = []
    ctx = multiprocessing.get_context("fork")
    ranges = [(lo, min(lo + chunk, n_runs)) for lo in range(0, n_runs, chunk)]
    # determinism spot-check: the first chunk is executed twice, in two different workers
    dup = ranges[0] if ranges else None
    stopped_early = False
    with ProcessPoolExecutor(max_workers=workers, mp_context=ctx) as ex:
        futs = {}
        pending = list(ranges)
        if dup:
            futs[ex.submit(_worker, prop, verif_seed, dup[0], dup[1], tier, 600)] = ("dup", dup)
        # submit lazily so that the wall-clock budget can stop the sweep
        inflight = 0
        it = iter(pending)

        def feed():
            nonlocal inflight
            while inflight < workers * 2:
                try:
                    rg = next(it)
                except StopIteration:
                    return
                futs[ex.submit(_worker, prop, verif_seed, rg[0], rg[1], tier, 600)] = ("main", rg)
                inflight += 1

        feed()
        dup_digests = None
        try:
            while futs:
                done = next(as_completed(list(futs)))
                kind, rg = futs.pop(done)
                try:
                    agg = done.result()
                except Exception as e:  # worker died (hang -> faulthandler exit) or crashed
                    print(f"HARNESS-ERROR worker for runs {rg} failed: {type(e).__name__}: {e}")
                    return 2
                if agg["errors"]:
                    errors.extend(agg["errors"])
                if kind == "dup":
                    dup_digests = agg["digests"]
                    continue
                inflight -= 1
                total["runs"] += agg["runs"]
                total["nontrivial"] |= agg["nontrivial"]
                total["schedules"] |= agg["schedules"]
                for k in ("probes", "faults", "extra"):
                    for kk, v in agg[k].items():
                        total[k][kk] = total[k].get(kk, 0) + v
                total["sim_seconds"] += agg["sim_seconds"]
                total["abstract_states"] += agg["abstract_states"]
                total["iterations"] += agg["iterations"]
                total["violations"].extend(agg["violations"])
                if len(total["samples"]) < 3:
                    total["samples"].extend(agg["samples"][: 3 - len(total["samples"])])
                digests.update(agg["digests"])
                if time.time() - t0 > budget:
                    stopped_early = True
                else:
                    feed()
        finally:
            for f in futs:
                f.cancel()
    if args.dump_digests:
        with open(args.dump_digests, "w") as f:
            json.dump({str(k): v for k, v in sorted(digests.items())}, f)
    if errors:
        i, seed, tb = errors[0]
        print(f"HARNESS-ERROR exception in the simulator at run {i} (seed {seed}):\n{tb}")
        return 2
    if dup_digests is not None:
        for i, d in dup_digests.items():
            if i in digests and digests[i] != d:
                print(f"HARNESS-ERROR run {i} is not deterministic (two workers, two digests)")
                return 2

    # ---- violations: group by signature, minimise, replay in a fresh process, match known findings
    known = load_known()
    groups = {}
    for v in sorted(total["violations"], key=lambda v: (len(v["ops"]), v["i"])):
        groups.setdefault(_sig_key(v["signature"]), []).append(v)
    exit_code = 0
    reported = []
    n_known = 0
    known_hit = {}
    unconfirmed = []
    min_budget = float(chk.__dict__.get("MINIMISE_TOTAL_S", 150.0))
    t_min = time.time()
    for key, vs in sorted(groups.items()):
        rec = vs[0]
        e = match_known(rec["signature"], known)
        if e is not None:
            # a listed finding: no need to minimise, but the recorded op list must replay
            chk_r = _run_one_forked(chk, replay=dict(knobs=rec["knobs"], ops=rec["ops"], seed=rec["seed"]))
            if chk_r["violation"] is None or _sig_key(chk_r["violation"]) != key:
                print(f"HARNESS-ERROR violation {key} of run {rec['i']} does not replay from its recorded op list")
                return 2
            known_hit.setdefault(e["id"], [e, 0])
            known_hit[e["id"]][1] += len(vs)
            continue
        if len(reported) >= 8:
            exit_code = 1
            continue
        # a worker executes many runs; only a violation that a process of its own reproduces counts (the code under
        # test may carry module- or class-level state from one simulated run into the next)
        confirmed = None
        for cand in vs[:40]:
            try:
                cr = _run_one_forked(chk, replay=dict(knobs=cand["knobs"], ops=cand["ops"], seed=cand["seed"]))
            except Exception:
                continue
            if cr["violation"] is not None and _sig_key(cr["violation"]) == key:
                confirmed = dict(cand, signature=cr["violation"], detail=cr["detail"], digest=cr["digest"])
                break
        if confirmed is None:
            unconfirmed.append((key, rec["i"], len(vs)))
            continue
        rec = confirmed
        if not args.no_minimise and time.time() - t_min < min_budget:
            rec, cands = minimise(chk, rec, budget_s=chk.__dict__.get("MINIMISE_S", 40.0))
        else:
            r0 = _run_one_forked(chk, replay=dict(knobs=rec["knobs"], ops=rec["ops"], seed=rec["seed"]))
            rec = dict(rec, signature=r0["violation"], detail=r0["detail"], digest=r0["digest"])
        if rec["signature"] is None:
            print(f"HARNESS-ERROR violation {key} of run {vs[0]['i']} does not replay from its recorded op list")
            return 2
        e = match_known(rec["signature"], known)
        if e is not None:
            known_hit.setdefault(e["id"], [e, 0])
            known_hit[e["id"]][1] += len(vs)
            continue
        mkey = _sig_key(rec["signature"])
        tag = f"{rec['signature']['rule']}-{rec['seed']}"
        path = write_replay(prop, rec, tag)
        ok, out = replay_in_fresh_process(prop, path)
        if not ok:
            # The worker that found (and minimised) it had executed other runs before: code under test that keeps
            # state at module or class level carries it from one simulated process into the next.  Only what a
            # FRESH interpreter reproduces counts: try the recorded, unminimised op lists of this group there.
            found = None
            for cand in vs[:6]:
                crec = dict(cand, digest=None)
                cpath = write_replay(prop, crec, f"{cand['signature']['rule']}-{cand['seed']}-unminimised")
                ok2, out2 = replay_in_fresh_process(prop, cpath)
                dg = [ln[7:].strip() for ln in out2.splitlines() if ln.startswith("digest=")]
                if ok2 and dg:
                    crec["digest"] = dg[0]
                    cpath = write_replay(prop, crec, f"{cand['signature']['rule']}-{cand['seed']}-unminimised")
                    ok3, out3 = replay_in_fresh_process(prop, cpath)  # and once more, now with the digest pinned
                    if ok3:
                        found = (crec, cpath)
                        break
            if found is None:
                print(f"HARNESS-ERROR replay {path} did not reproduce in a fresh process:\n{out}")
                return 2
            rec, path = found
            mkey = _sig_key(rec["signature"])
            print(f"  (not minimised: the minimised replay did not reproduce in a fresh interpreter - the code under test "
                  f"keeps state across simulated processes; the recorded run itself does reproduce)")
        exit_code = 1
        reported.append(mkey)
        print(f"  {rec['signature']['rule']}: {rec['detail']}")
        print(f"  facets={rec['signature']['facets']} seen in {len(vs)} of {total['runs']} runs; "
              f"minimised to {len(rec['ops'])} ops")
        print(f"VIOLATION property={prop} replay={path}")
    for key, i_run, n in unconfirmed:
        print(f"  not counted: {key} seen in {n} runs (first: run {i_run}) does not reproduce in a process of its own - "
              f"state carried over from earlier simulated runs of the same worker")
    if unconfirmed and not reported:
        print(f"HARNESS-ERROR {len(unconfirmed)} violation signature(s) of this sweep do not reproduce in a process of "
              f"their own and no other violation was confirmed")
        return 2
    for fid, (e, n) in sorted(known_hit.items()):
        n_known += 1
        print(f"KNOWN-FINDING: property={prop} {fid}: {e['what']} ({n} executions in this run)")

    wall = time.time() - t0
    if not args.no_evidence:
        write_evidence(chk, prop, tier, verif_seed, total, wall, len(reported), stopped_early, n_known)
    print(f"{prop}: {total['runs']} runs, {len(total['nontrivial'])} distinct non-trivial, "
          f"{len(total['schedules'])} distinct schedules, {wall:.1f}s, "
          f"{'VIOLATIONS: %d' % len(reported) if reported else 'no violation'}"
          f"{' (stopped by budget)' if stopped_early else ''}")
    return exit_code


def write_evidence(chk, prop, tier, verif_seed, total, wall, n_viol, stopped_early, n_known):
    os.makedirs(os.path.join(ROOT, "evidence"), exist_ok=True)
    runs = total["runs"]
    cov = dict(
        evaluations=runs,
        distinct_nontrivial=len(total["nontrivial"]),
        rule=chk.RULE,
        samples=total["samples"][:3] or [{"note": "no non-trivial run in this batch"}],
        runs_per_hour=int(runs / wall * 3600) if wall > 0 else 0,
        simulated_seconds=round(total["sim_seconds"], 3),
        loop_iterations=total["iterations"],
        faults_fired=dict(sorted(total["faults"].items())),
        probes=dict(sorted(total["probes"].items())),
        distinct_schedules=len(total["schedules"]),
        abstract_states_visited_sum=total["abstract_states"],
        components=chk.COMPONENTS,
        stopped_by_budget=stopped_early,
        known_findings_hit=n_known,
        exhaustive=False,
    )
    cov.update({k: v for k, v in total["extra"].items()})
    ev = dict(property_id=prop, tier=tier, seed=verif_seed, level=chk.LEVEL, coverage=cov,
              assumptions=chk.ASSUMPTIONS, wall_s=round(wall, 2), violations=n_viol)
    with open(os.path.join(ROOT, "evidence", f"{prop}.json"), "w") as f:
        json.dump(ev, f, indent=1, sort_keys=True, default=repr)
