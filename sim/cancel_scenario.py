"""C17: `gwf cancel` against mixed world states; the k-th scheduler cancel command fails (F1/F2)
for every k (enumerated per scenario)."""
from .fault_scenario import FaultEnumScenario

CANCEL_EXE = {"slurm": "scancel", "sge": "qdel", "lsf": "bkill"}


class CancelScenario(FaultEnumScenario):
    def main_op(self, w, r):
        patterns = self._patterns(w, r) if r.chance(0.7) else []
        force = r.chance(0.4)
        answer = None
        if not patterns and not force:
            answer = r.pick(["y", "y", "n", ""])
        return {"op": "cancel", "patterns": patterns, "force": force, "answer": answer, "cwd": self.knobs["cwd"]}

    def enumerate_faults(self, seams):
        if self.knobs["backend"] == "local":
            # the wire protocol has no reply to cancel_task: there is no per-request failure to inject
            self.extra["scenarios_with_accepted_jobs"] = 1
            return []
        exe = CANCEL_EXE[self.knobs["backend"]]
        n = sum(1 for k, d, s in seams if k == "cmd:" + exe)
        faults = []
        for k in range(1, n + 1):
            for kind in ("F1", "F2", "F4"):
                faults.append({"cmd_faults": [[exe, k, kind]]})
        self.extra["scenarios_with_accepted_jobs"] = 1 if n else 0
        return faults

    @staticmethod
    def classify(fault, seams, backend):
        exe, k, kind = fault["cmd_faults"][0]
        return f"cancel_fail:{kind}"

    def apply_extra(self, w, op):
        if op["op"] == "cancel":
            return self._cancel(w, op)
        return super().apply_extra(w, op)

    def _cancel(self, w, op):
        patterns = op["patterns"]
        argv = ["cancel"] + (["-f"] if op["force"] else []) + patterns
        stdin = None
        declined = False
        if not patterns and not op["force"]:
            stdin = (op["answer"] or "") + "\n"
            declined = op["answer"] != "y"
        fault = op.get("fault") or {}
        selected = sorted(w.model.targets) if not patterns else w.select(patterns)
        pre_latest = dict(w.latest)
        pre_phase = {}
        for n in selected:
            ref = w.jref(n)
            pre_phase[n] = None if ref is None else w.job_phase(ref)
        if w.local is not None:
            w.local.cancel_log = []
        # jobs of targets that are neither selected nor downstream of a selected target (a scheduler may
        # legitimately cancel jobs whose prerequisite was cancelled)
        # ... nor downstream of a job that an EARLIER invocation asked to cancel (that cancellation may still
        # be working its way through the scheduler)
        if w.local is not None:
            earlier = {w.local.jobs[ref]["name"] for ref in w.local.cancel_requested if ref in w.local.jobs}
        else:
            earlier = {w.cluster.jobs[j].name for j in w.cancel_requested_ids if j in w.cluster.jobs}
        earlier &= set(w.model.targets)
        affected = w.model.downstream(set(selected) | earlier)
        others_live = {n: w.jref(n) for n in w.model.targets if n not in affected and w.jref(n) is not None
                       and w.job_phase(w.jref(n)) in ("pending", "running")}
        res = w.gwf(argv, op.get("cwd", "root"), stdin=stdin, cmd_faults=fault.get("cmd_faults", ()))
        facets = dict(interruption=op.get("fault_class", "none"))
        if declined:
            w.probe("cancel_prompt_declined")
            if res.cancel_requests:
                w.flag("C17", "cancelled_despite_declined_prompt", f"requests {res.cancel_requests}", **facets)
            return res
        if res.exception is not None or res.exit_code != 0:
            w.flag("C17", "cancel_command_failed",
                   f"gwf {' '.join(argv)} -> exit {res.exit_code} {type(res.exception).__name__ if res.exception else ''}: "
                   f"{(res.output or '')[-200:]}", **facets)
            return res
        # ids the scheduler was asked to cancel: all cancel commands of this invocation (also failed ones)
        asked = []
        if w.local is not None:
            asked = list(w.local.cancel_log)
        else:
            exe = CANCEL_EXE[w.backend]
            for e, args, rc in res.cmd_log:
                if e == exe:
                    asked.extend(a for a in args if not a.startswith("-"))
        allowed = {pre_latest[n] for n in selected if n in pre_latest}
        required = {pre_latest[n] for n in selected if pre_phase.get(n) in ("pending", "running")}
        w.probe("cancel_commands", len(asked))
        if set(asked) - allowed:
            w.flag("C17", "cancelled_foreign_job",
                   f"gwf {' '.join(argv)} asked to cancel {sorted(set(asked) - allowed)}; selected targets' latest jobs "
                   f"are {sorted(allowed)}", **facets)
        if required - set(asked):
            w.flag("C17", "live_job_not_cancelled",
                   f"gwf {' '.join(argv)} did not ask to cancel {sorted(required - set(asked))} (live jobs of selected "
                   f"targets); asked {asked}", **facets)
        if len(asked) != len(set(asked)):
            w.flag("C17", "cancel_sent_twice", f"{asked}", **facets)
        # targets that could not be cancelled are reported
        failed_ids = set()
        if fault.get("cmd_faults"):
            k = fault["cmd_faults"][0][1]
            if k <= len(asked):
                failed_ids.add(asked[k - 1])
        out = res.output or ""
        for n in selected:
            jid = pre_latest.get(n)
            uncancellable = jid is None or ((pre_phase.get(n) == "done" or jid in failed_ids) and w.local is None)
            if uncancellable and f"Target {n} could not be cancelled" not in out:
                w.flag("C17", "failure_not_reported", f"{n} (job {jid}, {pre_phase.get(n)}) could not be cancelled but "
                       f"gwf did not say so", **facets)
            if uncancellable:
                w.probe("uncancellable_targets")
        # once the scheduler carried the cancellations out, none of them shows submitted/running,
        # and the next run is free to submit them again
        if w.pending_violation:
            return res
        if w.cluster is not None and w.cluster.flavour == "slurm" and w.cluster.acct_lag:
            w.cluster.acct_flush()  # "once the scheduler has carried out the cancellations"
        if w.local is not None:
            w.local.settle_timers()
        for n, ref in sorted(others_live.items()):
            w.probe("unselected_live_jobs_checked")
            if w.job_phase(ref) == "done" and w.job_result(ref) == "cancelled":
                w.flag("C17", "unselected_job_cancelled", f"gwf {' '.join(argv)} led to the cancellation of {n}'s job "
                       f"{ref}, which was not selected", **facets)
        exp = w.m_status()
        r1 = w.gwf(["status"], "root")
        if r1.exit_code == 0 and r1.exception is None:
            rows = w.parse_status_table(r1.stdout or r1.output)
            for n in selected:
                jid = pre_latest.get(n)
                if jid is None or jid in failed_ids or pre_phase.get(n) not in ("pending", "running"):
                    continue
                if rows.get(n) in ("submitted", "running"):
                    w.flag("C17", "still_live_after_cancel", f"{n} shown {rows.get(n)} after its job {jid} was cancelled",
                           **facets)
        else:
            w.flag("C17", "next_invocation_fails", f"gwf status after cancel -> {r1.exit_code} {r1.exception}", **facets)
        if w.pending_violation:
            return res
        pre_status = w.m_status()
        pl = dict(w.latest)
        r2 = w.gwf(["run"], "root")
        if r2.exit_code == 0 and r2.exception is None:
            w.check_plan(r2, [], pre_status, pl, props=("C17",))
            if w.pending_violation is not None:
                w.pending_violation.facets.update(facets)
            w.update_hash_model(r2, False)
        else:
            w.flag("C17", "next_invocation_fails", f"gwf run after cancel -> {r2.exit_code} {r2.exception}", **facets)
        return res
