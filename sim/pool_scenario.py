"""Engine P scenarios: seeded generation, concrete recorded op list, replay without PRNG.

An op is a dict {"op": <kind>, ..., "then": n|None}: after the external event the loop runs at most
`then` iterations (None = until nothing is runnable).  Ops name scenario task indices (k), never
tids or pids, so a shortened list stays meaningful; an op that is not applicable is a no-op.
"""
import json
import os

from .common import HarnessError, SimAbort, Violation
from .pool import FINAL, PoolWorld
from .prng import Rng
from .trace import Trace

PROFILES = {
    # name: knobs of the swarm configuration
    "pool": dict(client_faults=False),
    "pool_clients": dict(client_faults=True),
}

GARBAGE = [
    b"\n",
    b"garbage\n",
    b"\xff\xfe\xfd\n",
    b"{\n",
    b"[1, 2, 3]\n",
    b"42\n",
    b"null\n",
    b'"enqueue_task"\n',
    b'{"name": "x"}\n',
    b'{"__kind__": "nonsense"}\n',
    b'{"__kind__": "enqueue_task"}\n',
    b'{"__kind__": "enqueue_task", "name": "X", "script": "true"}\n',
    b'{"__kind__": "enqueue_task", "name": 5, "script": null, "working_dir": 7, "deps": "no", "time_limit": "x"}\n',
    b'{"__kind__": "get_task_states", "extra": 1}\n',
    b'{"__kind__": "get_task_state"}\n',
    b'{"__kind__": "get_task_state", "tid": 424242}\n',
    b'{"__kind__": "cancel_task"}\n',
    b'{"__kind__": "cancel_task", "tid": 424242}\n',
    b'{"__kind__": "cancel_task", "tid": -1}\n',
    b'{"__kind__": "cancel_task", "tid": "0"}\n',
    b'{"__kind__": "cancel_task", "tid": null}\n',
    b'{"__kind__": "cancel_task", "tid": [0]}\n',
    b'{"__kind__": "cancel_task", "tid": 0, "junk": true}\n',
    b'{"__kind__": "close", "junk": 1}\n',
    b'{"__kind__": "get_task_states"',  # truncated, no newline (followed by EOF)
    b"x" * 70000 + b"\n",  # longer than the stream reader's limit
]


def draw_knobs(rng: Rng, profile: str):
    kr = rng.fork("knobs")
    p = PROFILES[profile]
    faulty = kr.chance(0.66)  # about a third of the runs are fault-free
    deep = os.environ.get("VERIF_DEPTH") == "thorough"
    knobs = dict(
        profile=profile,
        cores=kr.pick([1, 1, 2, 2, 3, 4]),
        n_tasks=kr.pick([1, 2, 3, 3, 4, 4, 5, 6, 8, 12] + ([10, 16, 24] if deep else [])),
        max_ops=kr.pick([12, 20, 30, 40, 60, 80] + ([120, 200] if deep else [])),
        p_limit=kr.pick([0.0, 0.0, 0.2, 0.5]),
        p_dep=kr.pick([0.0, 0.3, 0.5, 0.8]),
        p_fail_code=kr.pick([0.0, 0.15, 0.3, 0.5]),
        p_cancel=kr.pick([0.0, 0.3, 0.6, 1.2]),
        spawn_fail=faulty and kr.chance(0.4),
        log_fail=faulty and kr.chance(0.3),
        spawn_wait=faulty and kr.chance(0.4),
        slow_death=faulty and kr.chance(0.4),
        split_exit=kr.chance(0.7),  # exit and connection-lost delivered as separate events
        big_output=kr.chance(0.3),
        late_submit=kr.chance(0.5),
        client_faults=p["client_faults"],
        n_bad_clients=kr.pick([1, 1, 2, 3]) if p["client_faults"] else 0,
        reset_on_drain=kr.chance(0.6),
        children=faulty and kr.chance(0.25),
        hash_salt=kr.randrange(1 << 30),
        dup_names=kr.chance(0.2),
    )
    # a client that stays connected but stops reading (slow or stalled peer): its socket buffers fill up
    knobs["stalled_reader"] = bool(p["client_faults"]) and kr.chance(0.3)
    knobs["sock_capacity"] = kr.pick([512, 4096, 65536])
    return knobs


class PoolScenario:
    def __init__(self, props, seed=None, replay=None, profile="pool", keep_trace=True, knob_override=None):
        self.props = props
        self.replaying = replay is not None
        if self.replaying:
            self.knobs = dict(replay["knobs"])
            self.script = list(replay["ops"])
            self.seed = replay.get("seed")
            self.rng = None
        else:
            self.seed = seed
            self.rng = Rng(seed)
            self.knobs = draw_knobs(self.rng, profile)
            if knob_override:
                self.knobs.update(knob_override)
            self.script = None
        self.ops = []
        self.trace = Trace(keep=keep_trace)
        self.trace.log("seed", seed=self.seed, knobs=self.knobs)
        self.next_k = 0
        self.violation = None

    # -- generation ------------------------------------------------------------------------
    def _plan(self, r: Rng):
        kn = self.knobs
        plan = {"code": 0}
        if r.chance(kn["p_fail_code"]):
            plan["code"] = r.pick([1, 1, 2, 127, 255, -11, -15, -9])
        size = r.pick([0, 0, 5, 100]) if not kn["big_output"] else r.pick([0, 5, 8192, 70000, 300000])
        plan["out_len"] = size
        plan["err_len"] = r.pick([0, 0, 3, size, 300000 if kn["big_output"] else 3])
        if r.chance(0.3):
            plan["stderr_first"] = True
        if kn["spawn_fail"] and r.chance(0.12):
            plan["spawn_fail"] = r.pick(["enoent", "enoent", "eagain"])
        if kn["spawn_wait"] and r.chance(0.25):
            plan["spawn_wait"] = True
        if kn["log_fail"] and not kn.get("dup_names") and r.chance(0.15):
            plan["log_fail"] = [r.pick(["stdout", "stderr"]), r.pick(["open", "write"])]
        if kn["children"] and r.chance(0.5):
            plan["children"] = True
        return plan

    def _then(self, r: Rng):
        x = r.random()
        if x < 0.5:
            return None
        if x < 0.65:
            return 0
        if x < 0.8:
            return 1
        if x < 0.9:
            return 2
        return r.randrange(3, 7)

    def _propose(self, w: PoolWorld):
        kn = self.knobs
        r = self.rng
        cands = []
        n_sub = len(w.tasks_by_k)
        good = "c0"
        if self.next_k < kn["n_tasks"]:
            wt = 6.0 if (n_sub == 0 or not kn["late_submit"]) else 2.0
            k = self.next_k
            deps = []
            if n_sub and r.chance(kn["p_dep"]):
                pool = sorted(w.tasks_by_k)
                for _ in range(r.pick([1, 1, 2, 3])):
                    d = r.pick(pool)
                    if d not in deps:
                        deps.append(d)
            limit = r.pick([0.5, 1, 2, 5, 30, 0]) if r.chance(kn["p_limit"]) else None
            cid = good
            if kn["client_faults"] and r.chance(0.3):
                cid = r.pick(["c1", "c2"])
            cands.append((wt, {"op": "submit", "conn": cid, "k": k, "deps": sorted(deps), "limit": limit,
                               "plan": self._plan(r)}))
        for k in sorted(w.tasks_by_k):
            f = w.tasks_by_k[k]
            if f.tid is None:
                continue
            st = w.st_name(f.tid)
            p = f.procs[-1] if f.procs else None
            if p is not None:
                starting = p._started is not None and not p._started.done()
                if p.alive and starting and not p.sigkill:
                    cands.append((3.0, {"op": "started", "k": k}))
                if p.alive and not p.sigkill and not starting:
                    code = f.plan.get("code", 0)
                    if kn["split_exit"]:
                        cands.append((3.0, {"op": "exit", "k": k, "code": code}))
                        cands.append((1.0, {"op": "exitdrain", "k": k, "code": code}))
                    else:
                        cands.append((4.0, {"op": "exitdrain", "k": k, "code": code}))
                if p.alive and p.sigkill:
                    cands.append((0.6 if kn["slow_death"] else 5.0, {"op": "exit", "k": k, "code": -9}))
                if p.phase == "EXITED":
                    cands.append((5.0, {"op": "drain", "k": k}))
            if kn["p_cancel"] > 0:
                wt = kn["p_cancel"] * (1.0 if st not in FINAL else 0.2)
                cands.append((wt, {"op": "cancel", "conn": good, "k": k}))
        if w.loop.next_timer() is not None:
            cands.append((2.0, {"op": "advance"}))
        if w.loop.runnable_now():
            cands.append((1.5, {"op": "run", "n": r.pick([1, 1, 2, 3, 5])}))
        if kn["client_faults"]:
            for cid in ("c1", "c2", "c3")[: kn["n_bad_clients"]]:
                cands.append((1.0, {"op": "garbage", "conn": cid, "i": r.randrange(len(GARBAGE))}))
                cands.append((0.3, {"op": "abort", "conn": cid}))
                cands.append((0.2, {"op": "eof", "conn": cid}))
                cands.append((0.3, {"op": "reconnect", "conn": cid}))
                if n_sub:
                    cands.append((0.4, {"op": "submit_abort", "conn": cid, "k": None}))
                if kn.get("stalled_reader"):
                    c = w.conns.get(cid)
                    if c is not None and not c.reading:
                        cands.append((0.3, {"op": "unstall", "conn": cid}))
                        cands.append((0.6, {"op": "stall", "conn": cid, "n": r.pick([5, 30])}))
                    else:
                        cands.append((0.8, {"op": "stall", "conn": cid, "n": r.pick([5, 30, 200])}))
            cands.append((1.0, {"op": "query", "conn": good}))
            if self.next_k < kn["n_tasks"] + 3 and r.chance(0.5):
                cands.append((0.5, {"op": "submit", "conn": r.pick(["c1", "c2"]), "k": 100 + self.next_k,
                                    "deps": [], "limit": None, "plan": dict(self._plan(r), bogus_dep=r.pick([424242, -1, "7", None]))}))
        if not cands:
            return None
        op = r.weighted(cands)
        if op["op"] in ("submit",) and op["k"] is not None and op["k"] < 100:
            self.next_k += 1
        if op["op"] == "submit_abort":
            op["k"] = 200 + len(self.ops)
            op["plan"] = self._plan(r)
        if op["op"] not in ("run", "advance"):
            op["then"] = self._then(r)
        return op

    # -- execution -------------------------------------------------------------------------
    def _materialise(self, plan):
        p = dict(plan)
        p["stdout"] = (b"o" * p.pop("out_len", 0))
        p["stderr"] = (b"e" * p.pop("err_len", 0))
        return p

    def apply(self, w: PoolWorld, op):
        kind = op["op"]
        new_f = None
        w.trace.log("op", **{k: v for k, v in op.items() if k != "plan"})
        if kind == "submit":
            plan = self._materialise(op["plan"])
            if "bogus_dep" in plan:
                new_f = w.submit(op["conn"], op["k"], [], None, plan, raw_deps=[plan["bogus_dep"]])
                if new_f:
                    w.fault("unknown_dependency_id")
            else:
                new_f = w.submit(op["conn"], op["k"], op["deps"], op["limit"], plan)
        elif kind == "submit_abort":
            # client sends a valid enqueue_task and vanishes before reading the reply
            plan = self._materialise(op["plan"])
            if w.submit(op["conn"], op["k"], [], None, plan, abort_after=True):
                w.conns[op["conn"]].tainted = True
                w.fault("disconnect_before_reply")
        elif kind == "cancel":
            w.cancel(op["conn"], op["k"])
        elif kind == "exit":
            w.proc_exit(op["k"], op["code"])
        elif kind == "drain":
            w.proc_drain(op["k"])
        elif kind == "exitdrain":
            if w.proc_exit(op["k"], op["code"]):
                w.proc_drain(op["k"])
        elif kind == "started":
            w.proc_started(op["k"])
        elif kind == "advance":
            w.advance()
        elif kind == "run":
            w.run(op["n"])
        elif kind == "garbage":
            c = w.conn(op["conn"])
            if c.usable:
                data = GARBAGE[op["i"]]
                c.tainted = True
                c.send(data)
                w.fault("garbage_request")
                if not data.endswith(b"\n"):
                    c.send_eof()
        elif kind == "abort":
            c = w.conns.get(op["conn"])
            if c is not None and not c.client_gone:
                c.abort()
                w.fault("client_abort")
        elif kind == "eof":
            c = w.conns.get(op["conn"])
            if c is not None and c.usable:
                c.send_eof()
                w.fault("client_eof")
        elif kind == "reconnect":
            c = w.conns.get(op["conn"])
            if c is None or not c.usable:
                w.connect(op["conn"], self.knobs.get("reset_on_drain", True))
        elif kind == "query":
            self._query(w, op["conn"])
        elif kind == "stall":
            # the client keeps asking but no longer reads the answers
            c = w.conn(op["conn"])
            if c.usable:
                c.tainted = True
                c.reading = False
                for _ in range(op["n"]):
                    w.request(op["conn"], "get_task_states")
                w.fault("stalled_reader")
        elif kind == "unstall":
            c = w.conns.get(op["conn"])
            if c is not None and not c.reading:
                c.resume_reading()
        else:
            raise HarnessError(f"unknown op {kind}")
        if kind not in ("run", "advance"):
            then = op.get("then")
            w.run(then)
        w.collect_replies()
        if kind == "submit" and op.get("then") is None and new_f is not None:
            f = new_f
            c = w.conns.get(op["conn"])
            if c is not None and op["conn"] == "c0" and c.usable and not c.tainted and not f.reply_seen:
                w.flag("C14", "healthy_submit_refused",
                       f"task {op['k']}: no task_enqueued reply on a connection that is still open")
        w.check_quiescent_point()

    def _query(self, w, cid):
        c = w.conn(cid)
        if not c.usable:
            w.flag("C14", "healthy_connection_lost", f"connection {cid} of the well-behaved client is dead: "
                   f"{type(c.handler_exc).__name__ if c.handler_exc else None}")
            return
        got, truth = w.query(cid)
        if got is None or truth is None:
            w.flag("C14", "no_answer_to_healthy_client", "get_task_states got no reply")
            return
        w.probe("state_queries")
        if got != truth:
            w.flag("C14", "wrong_states_reported", f"reported {got} truth {truth}")
        want_keys = set(w.last_issued or [])
        if set(got) != want_keys:
            w.flag("C14", "wrong_id_set", f"reported ids {sorted(got)} issued {sorted(want_keys)}")

    def run(self):
        kn = self.knobs
        w = PoolWorld(self.trace, kn["cores"], self.props, hash_salt=kn.get("hash_salt", 0),
                      dup_names=kn.get("dup_names", False))
        self.world = w
        w.sock_capacity = kn.get("sock_capacity", 1 << 22)
        try:
            with w:
                w.connect("c0", True)
                if self.replaying:
                    for op in self.script:
                        self.ops.append(op)
                        self.apply(w, op)
                        if w.pending_violation:
                            break
                else:
                    for _ in range(kn["max_ops"]):
                        op = self._propose(w)
                        if op is None:
                            break
                        self.ops.append(op)
                        self.apply(w, op)
                        if w.pending_violation:
                            break
                if not w.pending_violation:
                    if kn["client_faults"]:
                        # faults have stopped: the pool must still accept and run a new task
                        self._final_service_check(w)
                    w.settle()
                    if kn["client_faults"] and not w.pending_violation:
                        self._query(w, "c0")
                w.raise_pending()
        except Violation as v:
            self.violation = v
        except SimAbort as a:
            if a.violation.prop in self.props:
                self.violation = a.violation
        return self

    def _final_service_check(self, w):
        c = w.conn("c0")
        if not c.usable:
            w.flag("C14", "healthy_connection_lost", "connection c0 of the well-behaved client is dead")
            return
        k = 900
        f = w.submit("c0", k, [], None, {"code": 0, "stdout": b"ok", "stderr": b""})
        w.run()
        w.collect_replies()
        if f is None or f.tid is None or not f.reply_seen:
            w.flag("C14", "healthy_submit_refused", "pool did not accept a new task after the faults stopped")

    # -- results -------------------------------------------------------------------------------
    def result(self):
        w = self.world
        facts = list(w.tasks_by_tid.values())
        if w.memfs is not None:
            for base, at in w.memfs.fired:
                w.fault("log_" + at + "_error")
        for p in w.table.procs.values():
            if p.plan.get("spawn_wait"):
                w.fault("slow_spawn")
            if p.sigkill and p.exited_at is not None and p.returncode == -9:
                w.probe("killed_processes")
        nt = {
            "C11": any(f.dep_tids for f in facts),
            "C12": bool(w.probes.get("at_core_limit")) and len(facts) > w.cores,
            "C13": any(f.final not in (None, "COMPLETED") for f in facts) or len(facts) >= 2,
            "C14": bool(w.faults) and bool(w.probes.get("state_queries")),
        }
        nontrivial = all(nt[p] for p in self.props if p in nt)
        return dict(
            seed=self.seed,
            knobs=self.knobs,
            ops=self.ops,
            digest=self.trace.digest(),
            violation=self.violation.signature() if self.violation else None,
            detail=self.violation.detail if self.violation else None,
            probes=dict(w.probes),
            faults=dict(w.faults),
            sim_seconds=w.sim_seconds,
            iterations=w.loop.iterations,
            abstract_states=len(w.states_seen),
            schedule=_abstract_schedule(self.ops),
            n_tasks=len(w.tasks_by_tid),
            max_live=w.max_live,
            nontrivial=nontrivial,
        )


def _abstract_schedule(ops):
    return json.dumps([(o["op"], o.get("k")) for o in ops])
