"""Fake TCP at the name `socket` inside gwf.backends.local (client side is synchronous):
connect() asks the hub for a server-side connection; readline() pumps the pool's SimLoop until a
reply line or EOF is there.  `time.sleep` of the connect back-off advances the simulated clock."""


class FakeSocket:
    def __init__(self, hub):
        self.hub = hub
        self.conn = None
        self.closed = False

    def connect(self, addr):
        self.hub.connect_attempts.append(tuple(addr))
        conn = self.hub.open(addr)  # raises ConnectionRefusedError if nothing listens there
        self.conn = conn

    def makefile(self, encoding=None, mode="r", **kw):
        return _Reader(self) if "r" in mode else _Writer(self)

    def close(self):
        if not self.closed:
            self.closed = True
            if self.conn is not None:
                self.hub.client_closed(self.conn)


class _Writer:
    def __init__(self, sock):
        self.sock = sock
        self.buf = ""

    def write(self, s):
        self.buf += s
        return len(s)

    def flush(self):
        data, self.buf = self.buf, ""
        if data:
            self.sock.hub.client_send(self.sock.conn, data.encode("utf-8"))

    def close(self):
        pass


class _Reader:
    def __init__(self, sock):
        self.sock = sock

    def readline(self):
        return self.sock.hub.client_readline(self.sock.conn)

    def close(self):
        pass


class Hub:
    """Default hub: nothing listens anywhere."""

    def __init__(self):
        self.connect_attempts = []

    def open(self, addr):
        raise ConnectionRefusedError(111, "Connection refused")

    def client_send(self, conn, data):
        pass

    def client_readline(self, conn):
        return ""

    def client_closed(self, conn):
        pass


class SocketProxy:
    AF_INET = 2
    SOCK_STREAM = 1
    hub = None

    @classmethod
    def socket(cls, *a, **kw):
        return FakeSocket(cls.hub or Hub())


class TimeProxy:
    clock = None
    slept = 0.0

    @classmethod
    def sleep(cls, dt):
        cls.slept += dt
        if cls.clock is not None:
            cls.clock.advance(dt)

    @staticmethod
    def time():
        return TimeProxy.clock.now if TimeProxy.clock is not None else 0.0
