"""SimProc: the local pool's child processes, modelled on asyncio.subprocess.Process over
BaseSubprocessTransport (CPython 3.12 sources; conformance test in selftest/proc_conformance.py).

Life cycle of one process (driver decides every transition):

    spawn call --(spawn failure: raises at once)--> ALIVE --exit(code)--> EXITED --drain--> CLOSED

* returncode becomes visible at EXITED (transport._process_exited).
* communicate() returns at CLOSED (pipes at EOF and exit known = connection_lost);
  wait() returns as soon as returncode is known, else at CLOSED.
* kill()/terminate(): ALIVE -> signal recorded; EXITED -> silent no-op; CLOSED -> ProcessLookupError.
* cancelling communicate() does not signal the process.
* cancelling a spawn that is under way kills the half-started child and waits for its exit.
* stdout/stderr are real asyncio.StreamReaders fed through a pipe of bounded capacity: a script that has
  more output than fits (64 KiB kernel pipe + the reader's 128 KiB high-water mark) blocks until someone
  reads, and a process whose script has reached its end exits only once its output has been written
  (unless it dies from a signal).  communicate() reads both streams concurrently, as asyncio's does.
"""
import asyncio
import errno


class SimProc:
    def __init__(self, table, pid, script, cwd, plan):
        self.table = table
        self.pid = pid
        self.script = script
        self.cwd = cwd
        self.plan = plan
        self.phase = "ALIVE"  # ALIVE | EXITED | CLOSED
        self.returncode = None
        self.sigkill = False
        self.sigterm = False
        self.spawned_at = table.loop.time()
        self.exited_at = None
        self.closed_at = None
        self.started_at = None
        self._close_waiters = []
        self._started = None
        self.out_bytes = plan.get("stdout", b"")  # what the script prints in total
        self.err_bytes = plan.get("stderr", b"")
        self.stdout = asyncio.StreamReader(loop=table.loop)
        self.stderr = asyncio.StreamReader(loop=table.loop)
        self._pending = None  # [(reader, bytes still to write)], in the order the script writes them
        self._exit_requested = None
        self.blocked_on_pipe = False
        self.sent = {id(self.stdout): b"", id(self.stderr): b""}  # bytes that actually reached the pipes
        # a script that starts a long-running child: SIGKILL to the shell alone leaves it running;
        # only a signal to the whole process group (own session + killpg) takes it down
        self.children_alive = bool(plan.get("children"))
        self.own_group = False

    # ---- what gwf calls ------------------------------------------------------
    async def communicate(self, input=None):
        out, err = await asyncio.gather(self.stdout.read(), self.stderr.read())
        await self.wait()
        return out, err

    async def wait(self):
        if self.returncode is not None:
            return self.returncode
        fut = self.table.loop.create_future()
        self._close_waiters.append(fut)
        await fut
        return self.returncode

    def _signal(self, name):
        if self.phase == "CLOSED":
            self.table.trace.log("signal_lookup_error", pid=self.pid, sig=name)
            raise ProcessLookupError()
        if self.phase == "EXITED":
            self.table.trace.log("signal_noop", pid=self.pid, sig=name)
            return
        self.table.trace.log("signal", pid=self.pid, sig=name)
        if name == "KILL":
            self.sigkill = True
        else:
            self.sigterm = True
        self.table.on_signal(self, name)

    def kill(self):
        self._signal("KILL")

    def terminate(self):
        self._signal("TERM")

    def send_signal(self, sig):
        self._signal("KILL" if sig == 9 else "TERM")

    @property
    def sent_out(self):
        return self.sent[id(self.stdout)]

    @property
    def sent_err(self):
        return self.sent[id(self.stderr)]

    # ---- what the driver calls -------------------------------------------------
    @property
    def alive(self):
        return self.phase == "ALIVE"

    def group_signal(self, name):
        """os.killpg on this process's own group: the shell and its children."""
        if self.own_group:
            self.children_alive = False
        if self.phase != "CLOSED":
            self._signal(name)

    PIPE_CAPACITY = 65536 + 2 * 65536

    def _write_pending(self):
        """Write as much of the script's output as the pipes take; True when everything is written."""
        if self._pending is None:
            first = [(self.stdout, self.out_bytes), (self.stderr, self.err_bytes)]
            if self.plan.get("stderr_first"):
                first.reverse()
            self._pending = [[r, b] for r, b in first if b]
        while self._pending:
            reader, data = self._pending[0]
            room = self.PIPE_CAPACITY - len(reader._buffer)
            if room <= 0:
                if not self.blocked_on_pipe:
                    self.table.trace.log("blocked_on_pipe", pid=self.pid)
                self.blocked_on_pipe = True
                return False
            reader.feed_data(data[:room])
            self.sent[id(reader)] += data[:room]
            self._pending[0][1] = data[room:]
            if not self._pending[0][1]:
                self._pending.pop(0)
        self.blocked_on_pipe = False
        return True

    def do_exit(self, code):
        """The script reaches its end (code >= 0) or the process dies from a signal (code < 0)."""
        if self.phase != "ALIVE":
            return
        self._exit_requested = code
        self.progress()

    def progress(self):
        if self.phase != "ALIVE" or self._exit_requested is None:
            return
        code = self._exit_requested
        done = self._write_pending()
        if code >= 0 and not done:
            return  # blocked in write(2): the process cannot exit yet
        self._really_exit(code)

    def _really_exit(self, code):
        if code >= 0 or not self.sigkill:
            # the script ended by itself: it waited for (or reaped) its children
            self.children_alive = self.children_alive and bool(self.plan.get("children_detached"))
        self.phase = "EXITED"
        self.returncode = code
        self.exited_at = self.table.loop.time()
        self.table.trace.log("proc_exit", pid=self.pid, code=code)

    def do_drain(self):
        if self.phase != "EXITED":
            return False
        self.phase = "CLOSED"
        self.closed_at = self.table.loop.time()
        self.table.trace.log("proc_closed", pid=self.pid)
        self.stdout.feed_eof()
        self.stderr.feed_eof()
        for fut in self._close_waiters:
            if not fut.done():
                fut.set_result(None)
        self._close_waiters = []

    def do_started(self):
        if self._started is not None and not self._started.done():
            self.started_at = self.table.loop.time()
            self._started.set_result(None)


class ProcTable:
    """Ground truth for 'alive', 'started', 'exit status'."""

    def __init__(self, loop, trace, plan_for):
        self.loop = loop
        self.trace = trace
        self.plan_for = plan_for  # script -> plan dict
        self.procs = {}
        self.by_script = {}
        self.next_pid = 100
        self.spawn_attempts = {}  # script -> count
        self.listeners = []  # objects with on_spawn(proc) / on_signal(proc, sig)

    def on_signal(self, proc, sig):
        for l in self.listeners:
            l.on_signal(proc, sig)

    def live(self):
        return [p for p in self.procs.values() if p.alive]

    def progress(self):
        """Processes blocked in a write get another chance after every loop iteration."""
        for p in self.procs.values():
            if p.phase == "ALIVE" and p._exit_requested is not None:
                p.progress()

    def live_not_doomed(self):
        return [p for p in self.procs.values() if p.alive and not p.sigkill]

    async def spawn(self, script, stdin=None, stdout=None, stderr=None, cwd=None, **kw):
        plan = self.plan_for(script)
        self.spawn_attempts[script] = self.spawn_attempts.get(script, 0) + 1
        fail = plan.get("spawn_fail")
        if fail:
            self.trace.log("spawn_fail", script=script, kind=fail)
            for l in self.listeners:
                l.on_spawn_fail(script, fail)
            if fail == "enoent":
                raise FileNotFoundError(errno.ENOENT, "No such file or directory", str(cwd))
            raise OSError(errno.EAGAIN, "Resource temporarily unavailable")
        pid = self.next_pid
        self.next_pid += 1
        proc = SimProc(self, pid, script, cwd, plan)
        proc.own_group = bool(kw.get("start_new_session") or kw.get("process_group") == 0 or kw.get("preexec_fn"))
        self.procs[pid] = proc
        self.by_script.setdefault(script, []).append(proc)
        self.trace.log("spawn", pid=pid, script=script)
        for l in self.listeners:
            l.on_spawn(proc)
        proc._started = self.loop.create_future()
        if not plan.get("spawn_wait"):
            self.loop.call_soon(proc.do_started)
        try:
            await proc._started
        except GeneratorExit:
            raise
        except BaseException:
            # transp.close(): kill the half-started child, then wait for it
            if proc.alive:
                proc._signal("KILL")
            if proc.returncode is None:  # transp._wait(): woken at connection lost
                fut = self.loop.create_future()
                proc._close_waiters.append(fut)
                await fut
            raise
        return proc


class OsProxy:
    """Stands in for the name `os` inside gwf.backends.local if the module ever uses it to signal a
    process group (it does not today): killpg/getpgid go to the ProcTable, everything else is real."""

    def __init__(self):
        self._table = None

    def __getattr__(self, name):
        import os

        return getattr(os, name)

    def getpgid(self, pid):
        return pid

    def killpg(self, pgid, sig):
        t = self._table
        p = t.procs.get(pgid) if t is not None else None
        if p is None:
            raise ProcessLookupError()
        p.group_signal("KILL" if int(sig) == 9 else "TERM")


OS_PROXY = OsProxy()


class AsyncioProxy:
    """Stands in for the name `asyncio` inside gwf.backends.local: everything is the real
    module except create_subprocess_shell, which goes to the current ProcTable."""

    def __init__(self):
        self._table = None

    def __getattr__(self, name):
        return getattr(asyncio, name)

    async def create_subprocess_shell(self, cmd, **kw):
        if self._table is None:
            raise RuntimeError("no simulated process table installed")
        return await self._table.spawn(cmd, **kw)


PROXY = AsyncioProxy()
