"""Command-history scenarios: touch (C16), clean (C15), spec-hash records (C18).

Adds the ops  touch / clean / hashing on|off / rename / remove / add target  to the generic world
history and the reference models M_touch, M_clean and M_hash."""
import errno
import os

from . import fsx
from .wfgen import new_target
from .world_scenario import OPTION_POOLS, WorldScenario


class CmdScenario(WorldScenario):
    def _propose(self, w, r):
        base = super()._propose(w, r)
        wt = self.profile["weights"]
        cands = []
        cwd = self.knobs["cwd"]
        if wt.get("touch"):
            cands.append((wt["touch"], {"op": "touch", "patterns": self._patterns(w, r), "cwd": cwd}))
        if wt.get("clean"):
            pats = self._patterns(w, r)
            force = r.chance(0.5)
            op = {"op": "clean", "patterns": pats, "all": r.chance(0.4), "force": force, "cwd": cwd,
                  "answer": None if (pats or force) else r.pick(["y", "y", "n", ""])}
            if wt.get("clean_io_fault") and r.chance(wt["clean_io_fault"]):
                op["unlink_fails_at"] = r.pick([1, 1, 2, 3])
            cands.append((wt["clean"], op))
        if wt.get("toggle_hashing"):
            cands.append((wt["toggle_hashing"], {"op": "hashing", "on": not w.hashing if r.chance(0.8) else w.hashing,
                                                 "cwd": cwd}))
        if wt.get("rename") and w.model.targets:
            cands.append((wt["rename"], {"op": "rename", "t": r.pick(list(w.model.targets)), "new": f"R{w.model.counter}"}))
        if wt.get("remove") and len(w.model.targets) > 1:
            eps = w.model.endpoints()
            if eps:
                cands.append((wt["remove"], {"op": "remove", "t": r.pick(eps)}))
        if wt.get("add"):
            cands.append((wt["add"], {"op": "add", "seed": r.randrange(1 << 30)}))
        if wt.get("clock_jump"):
            cands.append((wt["clock_jump"], {"op": "clock_jump", "dt": -r.pick([1, 2, 5]) * self.knobs["granularity"]}))
        if wt.get("reject_submit") and w.cluster is not None:
            cands.append((wt["reject_submit"], {"op": "gwf", "argv": ["run"] + self._patterns(w, r), "cwd": cwd,
                                                "reject_kth_submit": r.pick([1, 1, 2, 3])}))
        total_extra = sum(c[0] for c in cands)
        total_base = sum(v for k, v in wt.items() if k not in ("touch", "clean", "toggle_hashing", "rename", "remove",
                                                                   "add", "clock_jump", "reject_submit", "clean_io_fault"))
        if cands and (base is None or r.random() < total_extra / (total_extra + total_base)):
            return r.weighted(cands)
        return base

    # ------------------------------------------------------------------ extra ops
    def apply_extra(self, w, op):
        kind = op["op"]
        if kind == "touch":
            return self._touch(w, op)
        if kind == "clean":
            return self._clean(w, op)
        if kind == "hashing":
            res = w.gwf(["config", "set", "use_spec_hashes", "true" if op["on"] else "false"], op.get("cwd", "root"))
            if res.exit_code == 0:
                w.hashing = op["on"]
                w.config["use_spec_hashes"] = op["on"]
                w.probe("hashing_toggles")
            return res
        if kind == "rename":
            t = w.model.targets.get(op["t"])
            if t is not None and op["new"] not in w.model.targets:
                new = {}
                for n, tm in w.model.targets.items():
                    if n == op["t"]:
                        tm.name = op["new"]
                        new[op["new"]] = tm
                    else:
                        new[n] = tm
                w.model.targets = new
                w.model.counter += 1
                w.write_workflow()
                w.probe("renames")
            return
        if kind == "remove":
            if op["t"] in w.model.targets and op["t"] in w.model.endpoints() and len(w.model.targets) > 1:
                del w.model.targets[op["t"]]
                w.write_workflow()
                w.probe("removals")
            return
        if kind == "add":
            from .prng import Rng

            t = new_target(w.model, Rng(op["seed"]), None, OPTION_POOLS.get(w.backend), subdir=True,
                           protect=self.profile.get("protect", False))
            w.write_workflow()
            return
        if kind == "clock_jump":
            w.clock.set(w.clock.now + op["dt"])
            w.probe("clock_jumps_back")
            return
        return super().apply_extra(w, op)

    def _gwf(self, w, op):
        if op.get("reject_kth_submit") and w.cluster is not None:
            return self._run_with_rejection(w, op)
        res = super()._gwf(w, op)
        self.check_hash_file(w, "after gwf " + " ".join(op["argv"]))
        return res

    def _run_with_rejection(self, w, op):
        from .fault_scenario import SUBMIT_EXE

        argv = op["argv"]
        exe = SUBMIT_EXE[w.backend]
        res = w.gwf(argv, op.get("cwd", "root"), cmd_faults=[[exe, op["reject_kth_submit"], "F1"]])
        w.update_hash_model(res, False)
        if w.cluster.fired.get("F1"):
            w.probe("rejected_submissions")
        self.check_hash_file(w, "after a run with a rejected submission")
        return res

    # ------------------------------------------------------------------ M_hash vs file
    def check_hash_file(self, w, when):
        got = w.read_hashes()
        if got == "__unreadable__":
            w.flag("C18", "hash_file_unreadable", when)
            return
        want = dict(w.m_hash)
        if (got or {}) != want:
            w.flag("C18", "hash_records", f"{when}: spec-hashes.json holds {sorted((got or {}).items())}, "
                   f"model says {sorted(want.items())}; hashing {'on' if w.hashing else 'off'}")
        else:
            w.probe("hash_file_checks")

    # ------------------------------------------------------------------ touch
    def _touch(self, w, op):
        patterns = op["patterns"]
        sel = w.select(patterns)
        cone = w.model.cone(sel)
        before = w.snapshot()
        t_start_ns = w.fs.stamp_ns()
        res = w.gwf(["touch"] + patterns, op.get("cwd", "root"))
        self._exit_ok(w, res, ["touch"] + patterns)
        if res.exit_code != 0 or res.exception is not None:
            return res
        if w.hashing:
            for n in cone:
                w.m_hash[n] = w.model.targets[n].spec_sha1()
        self.check_hash_file(w, "after touch")
        if w.hashing:
            got = w.read_hashes()
            missing = sorted(n for n in cone if not isinstance(got, dict) or got.get(n) != w.model.targets[n].spec_sha1())
            if missing:
                w.flag("C16", "spec_not_recorded_by_touch", f"touch {patterns}: current spec of {missing} not recorded")
        after = w.snapshot()
        cone_files = {o for n in cone for o in w.model.targets[n].outputs}
        # an output that is a symbolic link stands for the file it points to
        for o in sorted(cone_files):
            for snap in (before, after):
                v = snap.get(o)
                if v is not None and v[0] == "link":
                    dst = v[1].replace("$BASE", w.base)
                    if dst.startswith(w.proj + "/"):
                        cone_files = cone_files | {dst[len(w.proj) + 1:]}
        w.probe("touch_commands")
        for rel in sorted(set(before) | set(after)):
            a, b = before.get(rel), after.get(rel)
            if rel.startswith(".gwf/"):
                continue
            if a is not None and b is not None and a[0] == "link" and b[0] == "link":
                if a != b:
                    w.flag("C16", "touched_outside_cone", f"{rel}: link changed")
                continue
            if rel in cone_files:
                if b is None:
                    w.flag("C16", "output_missing_after_touch", rel)
                elif a is not None and a[1] != b[1]:
                    w.flag("C16", "content_changed_by_touch", rel)
                elif a is None and b[1] != b"":
                    w.flag("C16", "created_file_not_empty", rel)
            elif a != b:
                w.flag("C16", "touched_outside_cone", f"{rel}: {'created' if a is None else 'removed' if b is None else 'modified'}")
        for o in cone_files:
            if o not in after or not os.path.exists(w.path(o)):
                w.flag("C16", "output_missing_after_touch", o)
        if w.pending_violation:
            return res
        # every cone target with outputs must now look completed (unless excused)
        excused = set()
        for n in w.model.topo():
            if n not in cone:
                continue
            t = w.model.targets[n]
            if w.observable(n) not in ("none", "success"):
                excused.add(n)
            if any(d in excused for d in w.model.deps(n)):
                excused.add(n)
            prod = w.model.producer()
            for i in t.inputs:
                if i not in prod:
                    ns = w.stat_ns(i)
                    if ns is not None and ns > t_start_ns:
                        excused.add(n)
                        w.probe("future_dated_sources")
        exp = w.m_status()
        r1 = w.gwf(["status"], "root")
        if r1.exit_code != 0 or r1.exception is not None:
            return res
        rows = w.check_status(r1, expected=exp) or {}
        for n in cone:
            if not w.model.targets[n].outputs or n in excused:
                continue
            w.probe("touched_targets_checked")
            if rows.get(n) != "completed" or exp.get(n) != "completed":
                stale, why = w.m_stale(n)
                w.flag("C16", "not_completed_after_touch",
                       f"{n} is {rows.get(n)} after touch {patterns} (file state: {why})", reason=why)
        return res

    # ------------------------------------------------------------------ clean
    def _clean(self, w, op):
        patterns = op["patterns"]
        argv = ["clean"] + (["--all"] if op["all"] else []) + (["-f"] if op["force"] else []) + patterns
        stdin = None
        declined = False
        if not patterns and not op["force"]:
            stdin = (op["answer"] or "") + "\n"
            declined = op["answer"] != "y"
        names = sorted(w.model.targets) if not patterns else w.select(patterns)
        if not op["all"]:
            eps = set(w.model.endpoints())
            names = [n for n in names if n not in eps]
        expect_removed = set()
        may_remove = set()  # a dangling link is a declared output that "does not exist": removing it is allowed
        for n in names:
            t = w.model.targets[n]
            prot = {p for p, s in t.protect}
            for o in t.outputs:
                if o not in prot and os.path.lexists(w.path(o)):
                    may_remove.add(o)
                if o not in prot and os.path.exists(w.path(o)):
                    expect_removed.add(o)
                if o in prot:
                    w.probe("protected_outputs_in_selection")
        before = w.snapshot()
        io = None
        if op.get("unlink_fails_at"):
            io = "remove"
        res = self._gwf_clean(w, argv, op, stdin, io)
        after = w.snapshot()
        w.probe("clean_commands")
        removed = {rel for rel in before if rel not in after}
        changed = {rel for rel in after if rel in before and before[rel] != after[rel] and not rel.startswith(".gwf/")}
        created = {rel for rel in after if rel not in before and not rel.startswith(".gwf/")}
        if declined:
            w.probe("clean_prompt_declined")
            if removed or changed or created or self._state_changed(before, after):
                w.flag("C15", "changed_despite_declined_prompt", f"removed {sorted(removed)} changed {sorted(changed)}")
            return res
        if res.exception is not None or res.exit_code != 0:
            w.flag("C15", "clean_command_failed", f"gwf {' '.join(argv)} -> {res.exit_code} "
                   f"{type(res.exception).__name__ if res.exception else ''} {(res.output or '')[-200:]}")
            return res
        failed = set(getattr(w, "unlink_failed", set()))
        w.unlink_failed = set()
        if w.hashing:
            for n in names:
                w.m_hash.pop(n, None)
        extra = removed - expect_removed - may_remove
        missing = expect_removed - removed - failed
        if extra:
            kinds = []
            outs_all = {o for t in w.model.targets.values() for o in t.outputs}
            for e in sorted(extra):
                kinds.append("protected_or_unselected_output" if e in outs_all else
                             ("source" if e in w.model.sources else "other_file"))
            w.flag("C15", "removed_too_much", f"gwf {' '.join(argv)} removed {sorted(extra)} ({kinds}); "
                   f"allowed {sorted(expect_removed)}", kind=kinds[0])
        if missing:
            w.flag("C15", "not_removed", f"gwf {' '.join(argv)} left {sorted(missing)}; selected targets {names}")
        if changed or created:
            w.flag("C15", "other_files_changed", f"changed {sorted(changed)} created {sorted(created)}")
        tb = before.get(f".gwf/{w.backend}-backend-tracked.json")
        ta = after.get(f".gwf/{w.backend}-backend-tracked.json")
        if tb != ta:
            w.flag("C15", "tracked_jobs_changed_by_clean", f"{tb} -> {ta}")
        self.check_hash_file(w, "after clean")
        got = w.read_hashes()
        if w.hashing and isinstance(got, dict):
            left = sorted(n for n in names if n in got)
            if left:
                w.flag("C15", "hash_not_forgotten", f"cleaned targets {left} still have a recorded spec hash")
        return res

    def _state_changed(self, before, after):
        for rel in set(before) | set(after):
            if rel.startswith(".gwf/") and rel.endswith(".json"):
                a, b = before.get(rel), after.get(rel)
                if a != b and not (a is None and b is not None and b[1] in ({}, None)):
                    return True
        return False

    def _gwf_clean(self, w, argv, op, stdin, io):
        if not io:
            return w.gwf(argv, op.get("cwd", "root"), stdin=stdin)
        # fail the k-th unlink of this invocation: find its seam index by a dry count is not possible
        # without running, so arm a counter on the seam kind instead
        k = op["unlink_fails_at"]
        count = {"n": 0}
        orig = w._fs_seam
        w.unlink_failed = set()

        def seam(kind, rel, **kw):
            orig(kind, rel, **kw)
            if kind == "remove" and w.in_invocation:
                count["n"] += 1
                if count["n"] == k:
                    w.fault("unlink_error")
                    w.unlink_failed.add(rel)
                    raise OSError(errno.EACCES, "Permission denied", rel)

        w.fs.seam = seam
        try:
            return w.gwf(argv, op.get("cwd", "root"), stdin=stdin)
        finally:
            w.fs.seam = orig
