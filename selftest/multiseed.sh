#!/bin/bash
# Run every registered check at the given tier with several VERIF_SEED values; print one line per run.
# usage: selftest/multiseed.sh "<seeds>" [tier] [checks...]
cd "$(dirname "$0")/.."
seeds=${1:-"1 2 3"}; tier=${2:-quick}; shift 2
checks=${@:-$(/venv/bin/python -c "import json;print(' '.join(c['property_id'] for c in json.load(open('MANIFEST.json'))['checks']))")}
for s in $seeds; do for p in $checks; do
  out=$(VERIF_SEED=$s ./check $p --tier $tier --no-evidence 2>&1); rc=$?
  echo "seed=$s $p exit=$rc $(echo "$out" | tail -1)"
  if [ $rc -ne 0 ]; then echo "$out" | grep -v "^KNOWN-FINDING\|^WARNING" | tail -8 | cut -c1-500; fi
done; done
