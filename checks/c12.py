from checks._pool_common import ASSUMPTIONS, COMPONENTS, make, simplify_knobs, simplify_op  # noqa: F401

PROP = "C12"
RUN_WALL_S = 5  # wall-clock limit of one simulated run (a run that never returns is a violation)
LEVEL = "exploration"
RUNS = {"quick": 60000, "thorough": 2000000}
BUDGET_S = {"quick": 45, "thorough": 840}
CHUNK = 400
RULE = ('One evaluation = one seeded run as in C11. Invariant after every loop iteration: processes alive and not yet sent SIGKILL <= cores. At every full-quiescence point (nothing runnable, no timer, no undrained process): no ready task waits while a core is free. Non-trivial = the core limit was reached and more tasks than cores were accepted; distinct = different event-log digest.')
make_scenario = make({"C12"}, "pool")
