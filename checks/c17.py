from checks._world_common import ASSUMPTIONS, COMPONENTS, simplify_knobs, simplify_op  # noqa: F401
from sim.cancel_scenario import CancelScenario

PROP = "C17"
RUN_WALL_S = 600  # wall-clock limit of one simulated run (a run that never returns is a violation)
LEVEL = "fault_enumeration"
RUNS = {"quick": 600, "thorough": 20000}
BUDGET_S = {"quick": 50, "thorough": 840}
CHUNK = 5
RULE = ("One evaluation = one execution of `gwf cancel`. Scenarios (mixed never-submitted/pending/running/finished jobs; selection by patterns or all with prompt) are sampled; per scenario the cancel command is re-executed with the k-th scheduler cancel (scancel/qdel/bkill) failing with F1/F2/F4 (silent non-zero exit) for every k; on the local pool (no reply to cancel_task) only the fault-free command. Oracle: no job of a target that is neither selected nor downstream of a selected one gets cancelled; ids the scheduler was asked to cancel are a subset of the selected targets' latest ids and include every live one, no id twice; uncancellable targets are reported; afterwards none of the cancelled targets shows submitted/running and the next run follows M_plan.")
PROFILE = dict(
    backends=["slurm", "slurm", "sge", "lsf", "local"],
    sizes=[1, 2, 3, 4, 5, 6, 8],
    lengths=[2, 4, 6, 10],
    weights=dict(faulted=0.3, run=3, start=2.5, finish=2, sched_cancel=0.3, purge=0.5, acct_flush=0.3, modify_source=0.3,
                 set_unpinned=0.6,
                 delete_output=0.3),
    p_job_ok=0.6, p_hashing=0.2, p_kill_streak=0.3,
)


def make_scenario(seed=None, replay=None):
    return CancelScenario({"C17"}, PROFILE, seed=seed, replay=replay, keep_trace=False)
