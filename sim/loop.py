"""SimLoop: a virtual-time asyncio event loop stepped from outside.

* time() is the simulator's clock; nothing here reads a real clock.
* The selector is a stub: there is no real I/O. External events (process exit, client
  bytes, EOF) are delivered by the driver *between* iterations, by calling ordinary
  thread-unsafe loop APIs (call_soon, future.set_result, reader.feed_data ...), which
  appends their callbacks after the ones already scheduled - exactly where a real
  select() would have put them.
* The ready queue stays FIFO (real asyncio semantics).
"""
import asyncio
import threading
from asyncio import events


class _StubSelector:
    def __init__(self, loop):
        self._loop = loop

    def select(self, timeout):
        if timeout is None:
            raise RuntimeError("SimLoop stepped while nothing is runnable and no timer is pending")
        if timeout > 0:
            # only reached through advance(): jump the clock to the next timer
            self._loop._clock.advance(timeout)
        return []

    def close(self):
        pass


class Clock:
    """Virtual clock in seconds; exact binary fractions (tick 2**-10)."""

    TICK = 1.0 / 1024

    def __init__(self, start=1_000_000.0):
        self.now = float(start)

    def advance(self, dt):
        assert dt >= 0
        # round up to tick so that timers that were due become due
        ticks = -(-dt // self.TICK)
        self.now += ticks * self.TICK

    def set(self, t):
        self.now = float(t)


class SimTask(asyncio.Task):
    """Task with a seeded hash: sets of tasks (asyncio.wait) iterate in an order the seed decides."""

    _pending_hash = 0

    def __hash__(self):
        try:
            return self._sim_hash
        except AttributeError:
            # Task.__init__ registers the task in a WeakSet before the factory can set the attribute
            self._sim_hash = SimTask._pending_hash
            return self._sim_hash


class SimFuture(asyncio.Future):
    _pending_hash = 0

    def __hash__(self):
        try:
            return self._sim_hash
        except AttributeError:
            self._sim_hash = SimFuture._pending_hash
            return self._sim_hash


class SimLoop(asyncio.BaseEventLoop):
    def __init__(self, clock=None, hash_salt=0):
        super().__init__()
        self._hash_salt = hash_salt
        self._hash_counter = 0
        self._clock = clock or Clock()
        self._selector = _StubSelector(self)
        self.unhandled = []  # exception-handler contexts (not part of the digest)
        self.iterations = 0
        self.set_exception_handler(self._on_exception)
        self._task_counter = 0
        self.set_task_factory(self._make_task)

    # -- BaseEventLoop plumbing -------------------------------------------------
    def time(self):
        return self._clock.now

    def _process_events(self, event_list):
        pass

    def _write_to_self(self):
        pass

    def _on_exception(self, loop, context):
        exc = context.get("exception")
        self.unhandled.append((context.get("message"), type(exc).__name__ if exc else None, str(exc) if exc else None))

    def _make_task(self, loop, coro, context=None):
        # explicit names: the default Task-<n> counter is process-global and would leak across runs
        self._task_counter += 1
        SimTask._pending_hash = h = self._next_hash()
        t = SimTask(coro, loop=loop, name=f"sim-task-{self._task_counter}", context=context)
        t._sim_hash = h
        return t

    def _next_hash(self):
        self._hash_counter += 1
        return ((self._hash_counter + self._hash_salt) * 0x9E3779B97F4A7C15) & 0x3FFFFFFFFFFFFFFF

    def create_future(self):
        SimFuture._pending_hash = h = self._next_hash()
        f = SimFuture(loop=self)
        f._sim_hash = h
        return f

    def run_in_executor(self, executor, func, *args):
        # no real threads: the job runs now, its result is delivered in the next iteration
        fut = self.create_future()
        try:
            res = func(*args)
        except Exception as exc:  # noqa
            self.call_soon(lambda e=exc: fut.done() or fut.set_exception(e))
        else:
            self.call_soon(lambda: fut.done() or fut.set_result(res))
        return fut

    # -- stepping ---------------------------------------------------------------
    def runnable_now(self):
        if self._ready:
            return True
        nt = self.next_timer()
        return nt is not None and nt <= self.time() + self._clock_resolution

    def next_timer(self):
        best = None
        for h in self._scheduled:
            if not h._cancelled and (best is None or h._when < best):
                best = h._when
        return best

    def quiescent(self):
        return not self.runnable_now()

    def step(self):
        """Exactly one loop iteration."""
        self._thread_id = threading.get_ident()
        events._set_running_loop(self)
        try:
            self._run_once()
            self.iterations += 1
        finally:
            self._thread_id = None
            events._set_running_loop(None)

    def pump(self, max_iter=10_000, until=None):
        """Run iterations while something is runnable *now*; never moves the clock."""
        n = 0
        while self.runnable_now():
            if until is not None and until():
                break
            if n >= max_iter:
                raise RuntimeError("SimLoop.pump: iteration cap reached (livelock?)")
            self.step()
            n += 1
        return n

    def run_steps(self, k):
        """At most k iterations, stopping early at quiescence. Returns iterations done."""
        n = 0
        while n < k and self.runnable_now():
            self.step()
            n += 1
        return n

    def advance_to_next_timer(self):
        """Jump the clock to the earliest pending timer (does not run it). Returns dt or None."""
        nt = self.next_timer()
        if nt is None:
            return None
        dt = max(0.0, nt - self.time())
        if dt > 0:
            self._clock.advance(dt)
        return dt

    def hard_close(self):
        """Drop everything; used at the end of a run (no real resources are held)."""
        self._ready.clear()
        self._scheduled.clear()
        try:
            self.close()
        except Exception:
            pass
