"""SimFS: file mutations under one project directory are seam events.

Reads are real (tmpfs).  Mutations under the prefix are interposed: they take their timestamps
from the simulated clock, can fail with an injected OSError, can be the kill point of the
invocation, and are dropped once the invocation is frozen (hard-kill model).  Paths outside the
prefix and integer fds pass straight through.

Installed once per process (install()); inert unless a World is active (FS.current).
"""
import builtins
import errno
import io
import os

_real_open = builtins.open
_real_io_open = io.open
_real_utime = os.utime
_real_os_open = os.open
_real_remove = os.remove
_real_unlink = os.unlink
_real_replace = os.replace
_real_rename = os.rename
_real_mkdir = os.mkdir
_real_rmdir = os.rmdir


class SimKill(BaseException):
    """The simulated process received SIGKILL: unwinds the in-process invocation; nothing it does
    afterwards reaches durable state, the cluster or the pool."""


class FS:
    current = None  # the active world-side controller (an instance of FS) or None

    def __init__(self, prefix, clock, seam, granularity=1.0 / 1024, tick_per_op=0):
        self.prefix = os.path.realpath(prefix).rstrip("/") + "/"
        self.clock = clock
        self.seam = seam  # callable(kind, detail) -> None; may raise SimKill / OSError
        self.granularity = granularity
        self.tick_per_op = tick_per_op
        self.skew = 0.0  # added to timestamps written by "job nodes"

    # ----- helpers ---------------------------------------------------------------------
    def mine(self, path):
        if isinstance(path, int):
            return False
        try:
            p = os.fspath(path)
        except TypeError:
            return False
        if isinstance(p, bytes):
            p = os.fsdecode(p)
        if not os.path.isabs(p):
            p = os.path.join(os.getcwd(), p)
        p = os.path.normpath(p)
        return (p + "/").startswith(self.prefix) or p.startswith(self.prefix)

    def rel(self, path):
        p = os.path.normpath(os.path.join(os.getcwd(), os.fspath(path)))
        return p[len(self.prefix):] if p.startswith(self.prefix) else p

    def stamp_ns(self, skew=0.0):
        g = self.granularity
        t = self.clock.now + skew
        t = (t // g) * g
        return int(round(t * 1e9))

    def stamp(self, target, skew=0.0, follow_symlinks=True):
        ns = self.stamp_ns(skew)
        if follow_symlinks:
            _real_utime(target, ns=(ns, ns))
        else:
            _real_utime(target, ns=(ns, ns), follow_symlinks=False)

    def after_op(self):
        if self.tick_per_op:
            self.clock.advance(self.tick_per_op * self.clock.TICK)

    # ----- world-side (not seam events): used by the simulated user / job nodes -----------
    def world_write(self, path, data: bytes, skew=0.0):
        with _real_open(path, "wb") as f:
            f.write(data)
        self.stamp(path, skew)

    def world_touch_at(self, path, t):
        ns = int(round(t * 1e9))
        _real_utime(path, ns=(ns, ns))

    def world_remove(self, path):
        try:
            _real_remove(path)
        except FileNotFoundError:
            pass


class SimRaw(io.RawIOBase):
    """Raw layer under a real BufferedWriter/TextIOWrapper: each write() is a seam event."""

    def __init__(self, fs, path, fd, relpath):
        super().__init__()
        self.fs, self.path, self.fd, self.relpath = fs, path, fd, relpath
        self._closed_fd = False
        self.incarnation = getattr(fs, "incarnation", 0)  # the gwf process that owns this descriptor

    def writable(self):
        return True

    def readable(self):
        return False

    def seekable(self):
        return False

    def fileno(self):
        return self.fd

    def write(self, b):
        n = len(b)
        if getattr(self.fs, "incarnation", 0) != self.incarnation:
            # the process that opened this file has exited or was killed; whatever its Python object still
            # buffers (flushed by the garbage collector at some later time) never reaches the disk
            return n
        self.fs.seam("write", self.relpath, nbytes=n)  # may raise OSError / SimKill
        os.write(self.fd, bytes(b))
        self.fs.stamp(self.fd)
        self.fs.after_op()
        return n

    def close(self):
        if not self._closed_fd:
            self._closed_fd = True
            try:
                super().close()
            finally:
                os.close(self.fd)


def _open(file, mode="r", buffering=-1, encoding=None, errors=None, newline=None, closefd=True, opener=None):
    fs = FS.current
    if fs is None or not any(c in mode for c in "wax+") or not fs.mine(file):
        return _real_open(file, mode, buffering, encoding, errors, newline, closefd, opener)
    path = os.fspath(file)
    rel = fs.rel(path)
    fs.seam("open_w", rel, mode=mode)  # may raise OSError / SimKill (then nothing is truncated)
    flags = os.O_WRONLY | os.O_CREAT | os.O_CLOEXEC
    if "+" in mode:
        flags = os.O_RDWR | os.O_CREAT | os.O_CLOEXEC
    if "w" in mode:
        flags |= os.O_TRUNC
    if "a" in mode:
        flags |= os.O_APPEND
    if "x" in mode:
        flags |= os.O_EXCL
    existed = os.path.exists(path)
    fd = _real_os_open(path, flags, 0o666)
    if "w" in mode or not existed:
        fs.stamp(fd)
    fs.after_op()
    raw = SimRaw(fs, path, fd, rel)
    if buffering == 0:
        return raw
    buf = io.BufferedWriter(raw, buffer_size=io.DEFAULT_BUFFER_SIZE)
    if "b" in mode:
        return buf
    return io.TextIOWrapper(buf, encoding=encoding or "utf-8", errors=errors, newline=newline)


def _utime(path, times=None, *, ns=None, dir_fd=None, follow_symlinks=True):
    fs = FS.current
    if fs is None or not fs.mine(path) or times is not None or ns is not None:
        if ns is not None:
            return _real_utime(path, ns=ns, dir_fd=dir_fd, follow_symlinks=follow_symlinks)
        return _real_utime(path, times, dir_fd=dir_fd, follow_symlinks=follow_symlinks)
    if not (os.path.exists(path) if follow_symlinks else os.path.lexists(path)):
        raise FileNotFoundError(errno.ENOENT, "No such file or directory", os.fspath(path))
    fs.seam("utime", fs.rel(path))
    fs.stamp(path, follow_symlinks=follow_symlinks)
    fs.after_op()


def _os_open(path, flags, mode=0o777, *, dir_fd=None):
    fs = FS.current
    if fs is None or dir_fd is not None or not fs.mine(path) or not (flags & (os.O_CREAT | os.O_TRUNC | os.O_WRONLY | os.O_RDWR)):
        return _real_os_open(path, flags, mode, dir_fd=dir_fd)
    existed = os.path.exists(path)
    fs.seam("os_open", fs.rel(path), create=not existed)
    fd = _real_os_open(path, flags, mode)
    if not existed or (flags & os.O_TRUNC):
        fs.stamp(fd)
    fs.after_op()
    return fd


def _remove(path, *, dir_fd=None):
    fs = FS.current
    if fs is None or dir_fd is not None or not fs.mine(path):
        return _real_remove(path, dir_fd=dir_fd)
    if not os.path.lexists(path):
        raise FileNotFoundError(errno.ENOENT, "No such file or directory", os.fspath(path))
    fs.seam("remove", fs.rel(path))
    _real_remove(path)
    fs.after_op()


def _replace(src, dst, *, src_dir_fd=None, dst_dir_fd=None):
    fs = FS.current
    if fs is None or not (fs.mine(src) or fs.mine(dst)):
        return _real_replace(src, dst, src_dir_fd=src_dir_fd, dst_dir_fd=dst_dir_fd)
    fs.seam("replace", fs.rel(dst), src=fs.rel(src))
    _real_replace(src, dst)
    fs.after_op()


def _rename(src, dst, *, src_dir_fd=None, dst_dir_fd=None):
    fs = FS.current
    if fs is None or not (fs.mine(src) or fs.mine(dst)):
        return _real_rename(src, dst, src_dir_fd=src_dir_fd, dst_dir_fd=dst_dir_fd)
    fs.seam("replace", fs.rel(dst), src=fs.rel(src))
    _real_rename(src, dst)
    fs.after_op()


def _mkdir(path, mode=0o777, *, dir_fd=None):
    fs = FS.current
    if fs is None or dir_fd is not None or not fs.mine(path):
        return _real_mkdir(path, mode, dir_fd=dir_fd)
    if os.path.lexists(path):
        raise FileExistsError(errno.EEXIST, "File exists", os.fspath(path))
    fs.seam("mkdir", fs.rel(path))
    _real_mkdir(path, mode)
    fs.after_op()


_installed = False


def install():
    global _installed
    if _installed:
        return
    _installed = True
    builtins.open = _open
    io.open = _open
    os.utime = _utime
    os.open = _os_open
    os.remove = _remove
    os.unlink = _remove
    os.replace = _replace
    os.rename = _rename
    os.mkdir = _mkdir
