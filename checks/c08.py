from checks._world_common import ASSUMPTIONS, COMPONENTS, make, simplify_knobs, simplify_op  # noqa: F401

PROP = "C08"
LEVEL = "exploration"
RUNS = {"quick": 5000, "thorough": 120000}
BUDGET_S = {"quick": 50, "thorough": 840}
CHUNK = 50
RULE = ("One evaluation = one seeded history of gwf invocations interleaved with scheduler transitions: every pinned state code of the phase (Slurm 20 short codes and 15 sacct names, SGE letters, LSF states), unpinned codes (no crash), foreign jobs whose ids are prefixes/extensions of ours, accounting on/off and lagging, sacct batch size 1-3 (function default patched and enforced by the sim), purged queue, `gwf cancel` (also rejected by the scheduler for finished jobs), local pool incl. restarts (known finding F-C08-2). Oracle: every status row whose job is live/failed/cancelled equals the simulated scheduler's view of the job id returned at the target's latest submission (live queue over accounting); finished/no-record rows must be a file-based decision; the tracked-jobs file maps each target to that id exactly.")
RULE += (" Histories also contain interrupted or failing gwf invocations (hard kill at a seam event, Ctrl-C, ENOSPC, a failing or "
         "unreachable scheduler command) - only the invocations after them are judged - and 1-2 % of the runs use 140-260 targets.")
PROFILE = dict(
    nontrivial_probes=['backend_state_rows'],
    backends=["slurm", "slurm", "sge", "lsf", "local", "local"],
    weights=dict(status_concurrent=0.4, status=4, run=3, faulted=0.6, gwf_cancel=0.6, start=3, finish=3, sched_cancel=0.5, set_code=1.5, set_unpinned=0.3, purge=1,
                 acct_flush=1, foreign=0.7, pool_restart=0.4, modify_source=0.3, delete_output=0.3, advance=0.5),
    p_nested=0.1, p_job_ok=0.5, p_huge=0.01,
)
make_scenario = make({"C08"}, PROFILE)
