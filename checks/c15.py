from checks._world_common import ASSUMPTIONS, COMPONENTS, make, simplify_knobs, simplify_op  # noqa: F401
from sim.cmd_scenario import CmdScenario

PROP = "C15"
LEVEL = "exploration"
RUNS = {"quick": 4000, "thorough": 100000}
BUDGET_S = {"quick": 50, "thorough": 840}
CHUNK = 50
RULE = ('One evaluation = one seeded history with `gwf clean` (every combination of --all, -f, patterns, prompt answers y/n/empty; protect sets spelled plain, ./x, zz/../x, absolute, absolute-unnormalised; files that are outputs of one and inputs of another target; declared outputs that are symbolic links to data files belonging to nobody; one unlink failing with EACCES in a quarter of the commands). Oracle M_clean from a before/after snapshot: removed == existing unprotected outputs of the selected non-excluded targets exactly, everything else byte- and mtime-identical, tracked jobs untouched, hashes of cleaned targets forgotten, declined prompt => nothing changed. Reference-model conformance over command histories rather than a schedule/fault property.')
RULE += (" Histories also contain interrupted or failing gwf invocations (hard kill at a seam event, Ctrl-C, ENOSPC, a failing or "
         "unreachable scheduler command) - only the invocations after them are judged - and 1-2 % of the runs use 140-260 targets.")
PROFILE = dict(
    nontrivial_probes=['clean_commands'],
    backends=["slurm", "slurm", "sge", "lsf", "local"],
    sizes=[2, 3, 4, 5, 6, 8],
    protect=True, p_init_outputs=0.8, p_link_output=0.12,
    weights=dict(links=0.4, faulted=0.2, clean=4, clean_io_fault=0.25, run=1, start=1, finish=1.5, set_file=1.5, delete_output=0.5, touch=0.5,
                 toggle_hashing=0.3, advance=0.3),
    p_job_ok=0.8, p_hashing=0.5, p_huge=0.01,
)
make_scenario = make({"C15"}, PROFILE, CmdScenario)
