"""SimCluster: executable models of Slurm, SGE and LSF (command line + dependency semantics) over
one job table.  gwf reaches them through the names `subprocess` and `shutil` in gwf.backends.utils.

Written from the schedulers' documentation, not from gwf's code.  Where behaviour is not documented
the sim follows what gwf expects and the assumption is listed in the evidence (can hide a bug,
cannot raise a false alarm).
"""
import re
import shlex

from .common import HarnessError

# ---- state-code classification used by the oracles (pinned codes only) ------------------------
SLURM_PINNED = {
    "PD": "submitted", "CF": "submitted", "RH": "submitted", "RQ": "submitted", "RD": "submitted",
    "RF": "submitted", "SE": "submitted",
    "R": "running", "CG": "running", "S": "running", "ST": "running",
    "F": "failed", "TO": "failed", "OOM": "failed", "NF": "failed", "BF": "failed", "DL": "failed", "PR": "failed",
    "CA": "cancelled", "CD": "success",
}
SLURM_UNPINNED = ["RS", "SO", "RV", "SI"]
# Codes of jobs that are alive (held, suspended, being signalled, resizing ...) but that the statement does not
# assign to "submitted" or "running": either is accepted, "failed"/"cancelled"/"no record" is not - the job
# exists and will go on, reporting it otherwise makes the next run submit a duplicate.
LIVE_EITHER = {"slurm": {"SI", "RS", "SO"}, "lsf": {"PSUSP", "USUSP", "SSUSP", "ZOMBI"}, "sge": {"s", "S", "T", "Rq"}}
SLURM_LONG = {
    "BF": "BOOT_FAIL", "CA": "CANCELLED", "CD": "COMPLETED", "DL": "DEADLINE", "F": "FAILED", "NF": "NODE_FAIL",
    "OOM": "OUT_OF_MEMORY", "PD": "PENDING", "PR": "PREEMPTED", "R": "RUNNING", "RQ": "REQUEUED", "RS": "RESIZING",
    "RV": "REVOKED", "S": "SUSPENDED", "TO": "TIMEOUT",
}
SGE_PINNED = {"qw": "submitted", "hqw": "submitted", "hRwq": "submitted", "r": "running", "t": "running",
              "Rr": "running", "Rt": "running"}
SGE_UNPINNED = ["s", "S", "T", "Eqw", "dr", "dt", "Rq"]
LSF_PINNED = {"PEND": "submitted", "WAIT": "submitted", "RUN": "running", "DONE": "success", "EXIT": "failed",
              "UNKWN": "none"}
LSF_UNPINNED = ["ZOMBI", "PSUSP", "USUSP", "SSUSP"]

PHASE_CODES = {
    "slurm": {
        "pending": ["PD", "PD", "PD", "CF", "RH", "RQ", "RD", "RF", "SE"],
        "running": ["R", "R", "R", "CG", "S", "ST"],
        "ok": ["CD"],
        "failed": ["F"], "timeout": ["TO"], "oom": ["OOM"], "nodefail": ["NF"], "bootfail": ["BF"],
        "deadline": ["DL"], "preempted": ["PR"], "cancelled": ["CA"],
    },
    "sge": {"pending": ["qw", "qw", "hqw", "hRwq"], "running": ["r", "r", "t", "Rr", "Rt"]},
    "lsf": {"pending": ["PEND", "PEND", "WAIT"], "running": ["RUN"], "ok": ["DONE"], "failed": ["EXIT"],
            "timeout": ["EXIT"], "oom": ["EXIT"], "nodefail": ["EXIT"], "cancelled": ["EXIT"]},
}
FAIL_KINDS = ["failed", "timeout", "oom", "nodefail"]


class Job:
    __slots__ = ("id", "name", "script", "deps", "dep_mode", "phase", "result", "code", "live", "acct", "foreign",
                 "submit_seq", "from_gwf", "directives", "start_seq", "end_seq", "deps_at_submit", "invalid_dep",
                 "held_names", "outputs", "logs", "unpinned", "was_unpinned")

    def __init__(self, jid, name, script):
        self.id = jid
        self.name = name
        self.script = script
        self.deps = []
        self.dep_mode = None
        self.phase = "pending"  # pending | running | done
        self.result = None  # ok | failed | timeout | oom | nodefail | cancelled
        self.code = None  # visible state code (scheduler vocabulary)
        self.live = True  # still shown by the live queue
        self.acct = None  # state known to accounting (slurm): None until flushed
        self.foreign = False
        self.from_gwf = True
        self.directives = {}
        self.invalid_dep = False
        self.unpinned = False
        self.was_unpinned = False


class Fault:
    """Fail the k-th invocation (1-based) of executable `exe` with kind F1/F2/F3."""

    def __init__(self, exe, k, kind):
        self.exe, self.k, self.kind = exe, k, kind
        self.fired = False


class Cluster:
    EXES = {
        "slurm": ["sbatch", "squeue", "sacct", "scancel", "sinfo"],
        "sge": ["qsub", "qstat", "qdel"],
        "lsf": ["bsub", "bjobs", "bkill"],
    }

    def __init__(self, flavour, trace, rng_ids, accounting=True, sacct_limit=None, kill_invalid_depend=False,
                 acct_lag=False):
        self.flavour = flavour
        self.trace = trace
        self.jobs = {}
        self.order = []
        self.next_id = rng_ids
        self.accounting = accounting
        self.sacct_limit = sacct_limit
        self.acct_lag = acct_lag
        self.kill_invalid_depend = kill_invalid_depend
        self.journal = []  # (seq, what, job id, detail) mutations: submit / cancel / start / finish
        self.cmd_count = {}
        self.cmd_log = []  # every command of the current invocation: (exe, argv, rc)
        self.faults = []
        self.fired = {}
        self.on_command = None  # hook(exe, argv, stdin) called before execution (seam event)
        self.after_command = None  # hook(exe) called after execution (kill 'after')
        self.on_accept = None  # hook(job) at the instant a submission is accepted
        self.on_start = None  # hook(job) at the instant a job starts
        self.cluster_name = None  # multi-cluster Slurm: --parsable prints "jobid;cluster"
        self.frozen = False
        self.sacct_calls = 0

    # ---------------------------------------------------------------- ids
    def new_id(self):
        jid = str(self.next_id)
        self.next_id += 1
        return jid

    # ---------------------------------------------------------------- seam
    def which(self, name):
        if name in self.EXES[self.flavour]:
            return f"/sim/bin/{name}"
        return None

    def execute(self, argv, stdin):
        exe = argv[0].rsplit("/", 1)[-1]
        args = argv[1:]
        if self.on_command:
            self.on_command(exe, args, stdin)  # may raise SimKill / KeyboardInterrupt
        n = self.cmd_count.get(exe, 0) + 1
        self.cmd_count[exe] = n
        for f in self.faults:
            if not f.fired and f.exe == exe and f.k == n:
                f.fired = True
                self.fired[f.kind] = self.fired.get(f.kind, 0) + 1
                self.trace.log("cmd_fault", exe=exe, k=n, kind=f.kind)
                self.cmd_log.append((exe, args, f.kind))
                if f.kind == "F1":
                    # what a busy or unreachable controller really prints (the wording differs from call to call)
                    texts = {"slurm": ["simulated failure", "Socket timed out on send/recv operation",
                                       "Unable to contact slurm controller (connect failure)"],
                             "sge": ["simulated failure", "commlib error: got select error (Connection refused)"],
                             "lsf": ["simulated failure", "Failed in an LSF library call: LIM is down; try later"]}[self.flavour]
                    return 1, "", f"{exe}: error: {texts[n % len(texts)]}\n"
                if f.kind == "F2":
                    return 0, "", f"{exe}: error: Invalid job id specified\n"
                if f.kind == "F4":  # fails silently: non-zero exit, nothing on stderr
                    return 1, f"{exe}: could not complete the request\n", ""
                if f.kind == "F3":
                    return 0, "garbage ###\n", ""
        handler = getattr(self, f"_{self.flavour}_{exe}", None)
        if handler is None:
            raise HarnessError(f"no simulated executable {exe} for {self.flavour}")
        rc, out, err = handler(args, stdin)
        self.cmd_log.append((exe, args, rc))
        self.trace.log("cmd", exe=exe, args=args, rc=rc, out=out[:200], err=err[:200])
        if self.after_command:
            self.after_command(exe)
        return rc, out, err

    # ---------------------------------------------------------------- script directives
    def _parse_script(self, job, script, marker):
        d = {}
        lines = script.split("\n")
        for ln in lines:
            if ln.startswith(marker + " "):
                d.setdefault("_raw", []).append(ln[len(marker) + 1:])
        job.directives = d
        return d

    def _register(self, job):
        self.jobs[job.id] = job
        self.order.append(job.id)
        job.submit_seq = self.trace.seq
        self.journal.append((self.trace.seq, "submit", job.id, job.name))
        if self.on_accept is not None:
            self.on_accept(job)

    # ---------------------------------------------------------------- slurm
    def _slurm_sbatch(self, args, stdin):
        deps = []
        parsable = False
        for a in args:
            if a == "--parsable":
                parsable = True
            elif a.startswith("--dependency="):
                spec = a[len("--dependency="):]
                m = re.fullmatch(r"afterok((?::[^:,?]+)+)", spec)
                if not m:
                    return 1, "", f"sbatch: error: Invalid dependency specification: {spec}\n"
                deps = m.group(1)[1:].split(":")
            else:
                return 1, "", f"sbatch: error: unrecognized option '{a}'\n"
        for d in deps:
            if not re.fullmatch(r"\d+", d) or d not in self.jobs:
                return 1, "", "sbatch: error: Batch job submission failed: Job dependency problem\n"
        if stdin is None or not stdin.startswith("#!"):
            return 1, "", "sbatch: error: This does not look like a batch script.\n"
        name = None
        for raw in self._parse_script(Job(None, None, None), stdin, "#SBATCH").get("_raw", []):
            if raw.startswith("--job-name="):
                name = raw[len("--job-name="):]
        job = Job(self.new_id(), name, stdin)
        self._parse_script(job, stdin, "#SBATCH")
        job.deps = deps
        job.dep_mode = "afterok"
        job.code = "PD"
        self._register(job)
        suffix = f";{self.cluster_name}" if self.cluster_name else ""  # sbatch(1): "jobid[;cluster]"
        return 0, (job.id + suffix + "\n") if parsable else f"Submitted batch job {job.id}\n", ""

    def _slurm_squeue(self, args, stdin):
        # squeue(1): -h/--noheader, -o/--format, -a/--all; every job of every user is listed
        import re as _re

        noheader, fmt = False, "%.18i %.9P %.8j %.8u %.2t %.10M %.6D %R"
        show_hidden = False  # squeue(1): jobs in hidden partitions are listed only with --all
        i = 0
        while i < len(args):
            a = args[i]
            if a in ("--noheader", "-h"):
                noheader = True
            elif a in ("--format", "-o"):
                fmt = args[i + 1] if i + 1 < len(args) else ""
                i += 1
            elif a.startswith("--format="):
                fmt = a.split("=", 1)[1]
            elif a in ("--all", "-a"):
                show_hidden = True
            elif a == "--me":
                pass  # every simulated gwf job belongs to the invoking user; the foreign ones do not
            elif a in ("--user", "-u"):
                i += 1
            elif a.startswith("--user="):
                pass
            else:
                return 1, "", f"squeue: unrecognized option '{a}'\n"
            i += 1
        only_mine = any(a == "--me" or a in ("--user", "-u") or a.startswith("--user=") for a in args)
        head = {"i": "JOBID", "t": "ST", "T": "STATE", "j": "NAME", "P": "PARTITION", "u": "USER", "M": "TIME",
                "D": "NODES", "R": "NODELIST(REASON)"}

        def render(values):
            def sub(m):
                width, key = m.group(1), m.group(2)
                v = values.get(key, "")
                if width:
                    n = int(width.lstrip("."))
                    v = v[:n].rjust(n) if width.startswith(".") else v[:n].ljust(n)
                return v

            return _re.sub(r"%(\.?[0-9]+)?([a-zA-Z])", sub, fmt)

        out = []
        if not noheader:
            out.append(render(head))
        for jid in self.order:
            j = self.jobs[jid]
            part = next((d.split("=", 1)[1] if d.startswith("--partition=") else d[3:].strip()
                         for d in j.directives.get("_raw", []) if d.startswith("--partition=") or d.startswith("-p ")), "normal")
            if j.live and (show_hidden or part != "hidden") and not (only_mine and j.foreign):
                out.append(render({"i": j.id, "t": j.code or "", "T": SLURM_LONG.get(j.code, j.code or ""),
                                   "j": j.name or "", "P": "normal", "u": "user", "M": "0:00", "D": "1", "R": "(None)"}))
        return 0, "".join(ln + "\n" for ln in out), ""

    def _slurm_sacct(self, args, stdin):
        self.sacct_calls += 1
        if not self.accounting:
            return 1, "", "sacct: error: Slurm accounting storage is disabled\n"
        # sacct(1): -j/--jobs, -n/--noheader, -P/--parsable2, -p/--parsable, -X/--allocations, -o/--format
        opts = {"jobs": None, "noheader": False, "p2": False, "p1": False, "alloc": False, "format": None}
        i = 0
        while i < len(args):
            a = args[i]
            if a in ("--jobs", "-j", "--format", "-o"):
                key = "jobs" if a in ("--jobs", "-j") else "format"
                opts[key] = args[i + 1] if i + 1 < len(args) else ""
                i += 1
            elif a.startswith("--jobs=") or a.startswith("--format="):
                opts["jobs" if a.startswith("--jobs=") else "format"] = a.split("=", 1)[1]
            elif a in ("--noheader", "-n"):
                opts["noheader"] = True
            elif a in ("--parsable2", "-P"):
                opts["p2"] = True
            elif a in ("--parsable", "-p"):
                opts["p1"] = True
            elif a in ("--allocations", "-X"):
                opts["alloc"] = True
            else:
                return 1, "", f"sacct: unrecognized option '{a}'\n"
            i += 1
        if opts["jobs"] is None:
            return 1, "", "sacct: error: simulation requires --jobs\n"
        fields = [f.strip().lower() for f in (opts["format"] or "jobid,jobname,partition,account,alloccpus,state,exitcode").split(",")]
        ids = opts["jobs"].split(",")
        if self.sacct_limit is not None and len(ids) > self.sacct_limit:
            return 1, "", "sacct: error: Too many job ids in one query\n"
        rows = []
        for jid in ids:
            j = self.jobs.get(jid)
            if j is None or j.acct is None:
                continue
            long = SLURM_LONG.get(j.acct, j.acct)
            if j.acct == "CA":
                long = "CANCELLED by 1000"
            recs = [(j.id, long)]
            if not opts["alloc"] and getattr(j, "start_seq", None) is not None:
                # without -X the job's steps are listed as well
                recs += [(j.id + ".batch", long.split()[0]), (j.id + ".extern", "COMPLETED" if j.phase == "done" else long.split()[0])]
            for rid, st in recs:
                vals = {"jobid": rid, "state": st, "jobname": j.name or "", "partition": "normal", "account": "acc",
                        "alloccpus": "1", "exitcode": "0:0"}
                rows.append([vals.get(f, "") for f in fields])
        header = [{"jobid": "JobID", "state": "State", "jobname": "JobName", "partition": "Partition", "account": "Account",
                   "alloccpus": "AllocCPUS", "exitcode": "ExitCode"}.get(f, f) for f in fields]
        lines = []
        if opts["p2"] or opts["p1"]:
            tail = "|" if opts["p1"] and not opts["p2"] else ""
            if not opts["noheader"]:
                lines.append("|".join(header) + tail)
            lines += ["|".join(r) + tail for r in rows]
        else:
            w_ = 12
            if not opts["noheader"]:
                lines.append(" ".join(h[:w_].rjust(w_) for h in header))
                lines.append(" ".join("-" * w_ for h in header))
            lines += [" ".join(v[:w_].ljust(w_) for v in r) for r in rows]
        return 0, "".join(ln + "\n" for ln in lines), ""

    def _slurm_scancel(self, args, stdin):
        ids = [a for a in args if not a.startswith("-")]
        err = ""
        for jid in ids:
            j = self.jobs.get(jid)
            if j is None:
                err += f"scancel: error: Kill job error on job id {jid}: Invalid job id specified\n"
                continue
            self.journal.append((self.trace.seq, "cancel", jid, j.name))
            if j.phase == "done":
                if not j.live:
                    err += f"scancel: error: Kill job error on job id {jid}: Invalid job id specified\n"
                # already completed: real scancel reports 'Job/step already completing or completed'
                else:
                    err += f"scancel: error: Kill job error on job id {jid}: Job/step already completing or completed\n"
                continue
            self._finish(j, "cancelled")
            if "--verbose" in args:
                err += f"scancel: Terminating job {jid}\n"
        return 0, "", err

    def _slurm_sinfo(self, args, stdin):
        return 0, "", ""

    # ---------------------------------------------------------------- sge
    def _sge_qsub(self, args, stdin):
        deps = []
        terse = False
        i = 0
        while i < len(args):
            a = args[i]
            if a == "-terse":
                terse = True
            elif a == "-hold_jid":
                i += 1
                deps = args[i].split(",")
            else:
                return 1, "", f"qsub: Unknown option {a}\n"
            i += 1
        if stdin is None:
            return 1, "", "qsub: no script\n"
        job = Job(self.new_id(), None, stdin)
        for raw in self._parse_script(job, stdin, "#$").get("_raw", []):
            if raw.startswith("-N "):
                job.name = raw[3:]
        # an element that is not a decimal job id is a job-NAME pattern (matches jobs by name)
        ids = []
        for d in deps:
            if re.fullmatch(r"\d+", d):
                ids.append(d)
            else:
                ids.extend(j.id for j in self.jobs.values() if j.name == d and j.phase != "done")
        job.deps = ids
        job.dep_mode = "hold"
        job.code = "hqw" if any(self.jobs.get(d) is not None and self.jobs[d].phase != "done" for d in ids) else "qw"
        self._register(job)
        return 0, (job.id + "\n") if terse else f'Your job {job.id} ("{job.name}") has been submitted\n', ""

    def _sge_qstat(self, args, stdin):
        if "-xml" not in args:
            return 1, "", "qstat: simulation supports -xml only\n"
        run, pend = [], []
        for jid in self.order:
            j = self.jobs[jid]
            if not j.live or j.phase == "done":
                continue
            xml = (f"<job_list state=\"{'running' if j.phase == 'running' else 'pending'}\">"
                   f"<JB_job_number>{j.id}</JB_job_number><JB_name>{j.name}</JB_name><state>{j.code}</state></job_list>")
            (run if j.phase == "running" else pend).append(xml)
        body = ("<?xml version='1.0'?><job_info><queue_info>" + "".join(run) + "</queue_info><job_info>"
                + "".join(pend) + "</job_info></job_info>")
        return 0, body, ""

    def _sge_qdel(self, args, stdin):
        out, err, rc = "", "", 0
        for jid in args:
            j = self.jobs.get(jid)
            if j is None or j.phase == "done":
                err += f'denied: job "{jid}" does not exist\n'
                rc = 1
                continue
            self.journal.append((self.trace.seq, "cancel", jid, j.name))
            self._finish(j, "cancelled")
            out += f"user has deleted job {jid}\n"
        return rc, out, err

    # ---------------------------------------------------------------- lsf
    def _lsf_bsub(self, args, stdin):
        deps = []
        i = 0
        while i < len(args):
            a = args[i]
            if a == "-w":
                i += 1
                expr = args[i]
                for term in expr.split("&&"):
                    m = re.fullmatch(r"\s*done\((\d+)\)\s*", term)
                    if not m:
                        return 255, "", f"{expr}: Bad dependency expression. Job not submitted.\n"
                    deps.append(m.group(1))
            else:
                return 255, "", f"bsub: Illegal option -- {a}\n"
            i += 1
        for d in deps:
            if d not in self.jobs:
                return 255, "", f"done({d}): Wrong dependency condition. Job not submitted.\n"
        if stdin is None:
            return 255, "", "bsub: no job script\n"
        job = Job(self.new_id(), None, stdin)
        queue = "normal"
        for raw in self._parse_script(job, stdin, "#BSUB").get("_raw", []):
            if raw.startswith("-J "):
                job.name = raw[3:]
            if raw.startswith("-q "):
                queue = raw[3:]
        job.deps = deps
        job.dep_mode = "done"
        job.code = "PEND"
        self._register(job)
        return 0, f"Job <{job.id}> is submitted to queue <{queue}>.\n", ""

    def _lsf_bjobs(self, args, stdin):
        # bjobs(1): -noheader, -o "<field list>", job ids; without -o the default long line
        noheader, fields, ids = False, None, []
        i = 0
        while i < len(args):
            a = args[i]
            if a == "-noheader":
                noheader = True
            elif a == "-o":
                fields = (args[i + 1] if i + 1 < len(args) else "").split()
                i += 1
            elif a in ("-a", "-w"):
                pass
            elif re.fullmatch(r"\d+", a):
                ids.append(a)
            else:
                return 255, "", f"bjobs: illegal option -- {a}\n"
            i += 1
        default = fields is None
        if default:
            fields = ["jobid", "user", "stat", "queue", "from_host", "exec_host", "job_name", "submit_time"]
        out, err = "", ""
        rows = []
        for jid in ids:
            j = self.jobs.get(jid)
            if j is None or not j.live:
                err += f"Job <{jid}> is not found\n"
                continue
            vals = {"jobid": j.id, "user": "user", "stat": j.code, "queue": "normal", "from_host": "host", "exec_host": "-",
                    "job_name": j.name or "", "submit_time": "Oct  3 10:00"}
            rows.append([vals.get(f.split(":")[0].lower(), "-") for f in fields])
        if rows and not noheader:
            out += " ".join(f.split(":")[0].upper() for f in fields) + "\n"
        for r in rows:
            out += (" ".join(v.ljust(7) for v in r) if default else " ".join(r)) + "\n"
        return 0, out, err

    def _lsf_bkill(self, args, stdin):
        out, err, rc = "", "", 0
        for jid in args:
            j = self.jobs.get(jid)
            if j is None or not j.live:
                err += f"Job <{jid}>: No matching job found\n"
                rc = 255
                continue
            self.journal.append((self.trace.seq, "cancel", jid, j.name))
            if j.phase == "done":
                err += f"Job <{jid}>: Job has already finished\n"
                rc = 255
                continue
            self._finish(j, "cancelled")
            out += f"Job <{jid}> is being terminated\n"
        return rc, out, err

    # ---------------------------------------------------------------- legal scheduler behaviour
    def dep_state(self, j):
        """'ok' (may start) | 'wait' | 'never'."""
        worst = "ok"
        for d in j.deps:
            dj = self.jobs.get(d)
            if dj is None:
                continue
            if j.dep_mode == "hold":
                if dj.phase != "done":
                    worst = "wait" if worst != "never" else worst
            else:  # afterok / done(): finished successfully
                if dj.phase != "done":
                    worst = "wait" if worst != "never" else worst
                elif dj.result != "ok":
                    worst = "never"
        return worst

    def startable(self):
        return [j for j in self.jobs.values() if j.phase == "pending" and not j.foreign and self.dep_state(j) == "ok"]

    def running(self):
        return [j for j in self.jobs.values() if j.phase == "running" and not j.foreign]

    def start(self, j):
        assert j.phase == "pending" and self.dep_state(j) == "ok"
        if self.on_start is not None:
            self.on_start(j)
        j.phase = "running"
        j.code = PHASE_CODES[self.flavour]["running"][0]
        j.start_seq = self.trace.seq
        self.journal.append((self.trace.seq, "start", j.id, j.name))
        self.trace.log("job_start", id=j.id, name=j.name)

    def _finish(self, j, how):
        j.phase = "done"
        j.result = how
        j.end_seq = self.trace.seq
        codes = PHASE_CODES[self.flavour].get(how)
        if self.flavour == "sge":
            j.live = False  # finished SGE jobs vanish from qstat
            j.code = None
        else:
            j.code = codes[0]
        if self.flavour == "slurm" and not self.acct_lag:
            j.acct = j.code
        self.journal.append((self.trace.seq, "finish", j.id, how))
        self.trace.log("job_finish", id=j.id, name=j.name, how=how)
        # jobs whose dependency can never be satisfied any more
        if self.kill_invalid_depend and self.flavour == "slurm":
            for o in self.jobs.values():
                if o.phase == "pending" and self.dep_state(o) == "never":
                    self._finish(o, "cancelled")

    def finish(self, j, how):
        assert j.phase == "running"
        self._finish(j, how)

    def purge(self):
        n = 0
        for j in self.jobs.values():
            if j.phase == "done" and j.live:
                j.live = False
                n += 1
        self.trace.log("purge", n=n)
        return n

    def acct_flush(self):
        for j in self.jobs.values():
            if self.flavour == "slurm":
                if j.phase == "done":
                    j.acct = PHASE_CODES["slurm"][j.result][0]
                elif j.phase == "running":
                    j.acct = "R"
                else:
                    j.acct = "PD"
        self.trace.log("acct_flush")

    def set_code(self, j, code, unpinned=False):
        j.code = code
        j.unpinned = unpinned
        if unpinned:
            j.was_unpinned = True
        self.trace.log("set_code", id=j.id, code=code)

    def foreign_job(self, jid, code):
        j = Job(jid, "other-user-job", "")
        j.foreign = True
        j.from_gwf = False
        j.code = code
        j.phase = "running"
        self.jobs[jid] = j
        self.order.append(jid)
        self.trace.log("foreign_job", id=jid, code=code)

    # ---------------------------------------------------------------- what an ideal client is told
    def observable(self, jid):
        """submitted | running | failed | cancelled | success | none | unpinned"""
        j = self.jobs.get(jid)
        if j is None:
            return "none"
        fl = self.flavour
        if fl == "slurm":
            if j.live:
                if j.unpinned:
                    return "live" if j.code in LIVE_EITHER["slurm"] else "unpinned"
                return SLURM_PINNED[j.code]
            if self.accounting and j.acct is not None:
                return SLURM_PINNED[j.acct]
            return "none"
        if fl == "sge":
            if j.live and j.phase != "done":
                if j.unpinned:
                    return "live" if j.code in LIVE_EITHER["sge"] else "unpinned"
                return SGE_PINNED[j.code]
            return "none"
        if fl == "lsf":
            if j.live:
                if j.unpinned:
                    return "live" if j.code in LIVE_EITHER["lsf"] else "unpinned"
                return LSF_PINNED[j.code]
            return "none"
        raise HarnessError(fl)


class MultiCluster(Cluster):
    """All three command-line front ends over one job table (used where the property is about which
    backend gets selected, C20)."""

    EXE_FLAVOUR = {e: f for f, es in Cluster.EXES.items() for e in es}

    def __init__(self, trace, first_id, **kw):
        super().__init__("slurm", trace, first_id, **kw)

    def which(self, name):
        return f"/sim/bin/{name}" if name in self.EXE_FLAVOUR else None

    def execute(self, argv, stdin):
        exe = argv[0].rsplit("/", 1)[-1]
        self.flavour = self.EXE_FLAVOUR.get(exe, self.flavour)
        return super().execute(argv, stdin)


class FakePopen:
    """Stands in for subprocess.Popen inside gwf.backends.utils."""

    cluster = None

    def __init__(self, argv, stdout=None, stderr=None, stdin=None, universal_newlines=None, **kw):
        self.argv = list(argv)
        self.returncode = None

    def communicate(self, input=None):
        cl = FakePopen.cluster
        if cl is None:
            raise HarnessError("no simulated cluster installed")
        rc, out, err = cl.execute(self.argv, input)
        self.returncode = rc
        return out, err


class SubprocessProxy:
    PIPE = -1
    Popen = FakePopen


class ShutilProxy:
    @staticmethod
    def which(name):
        cl = FakePopen.cluster
        return cl.which(name) if cl is not None else None
