"""Engine W, backend `local`: the real worker pool (Engine P's PoolWorld: real Scheduler/Server on
the virtual-time loop, fake processes) behind the fake socket; gwf's real synchronous Client talks
to it, its readline() pumping the pool's loop."""
import os

from .common import HarnessError
from .pool import PoolWorld
from .sock import Hub, SocketProxy, TimeProxy

STATE_MAP = {"SUBMITTED": "submitted", "RUNNING": "running", "FAILED": "failed", "KILLED": "failed",
             "COMPLETED": "success", "CANCELLED": "cancelled"}


class LocalAdapter(Hub):
    def _on_cancel_request(self, tid):
        self.cancel_log.append(tid)
        self.cancel_requested.add((self.generation, tid))

    def __init__(self, world, cores, host="localhost", port=12345):
        super().__init__()
        self.world = world
        self.cores = cores
        self.addr = (host, port)
        self.pool = None
        self.generation = 0
        self.jobs = {}  # (generation, tid) -> dict(name, script, deps, proc)
        self.by_script = {}
        self.n_conn = 0
        self.cancel_log = []
        self.cancel_requested = set()  # (generation, tid) of every cancel request the pool ever received
        self.reply_faults = {}  # k-th readline of the current invocation -> 'garbage' | 'eof'
        self.n_readline = 0
        self.fired = {}
        self.blocked_clients = 0
        self.start_pool()

    # ---------------------------------------------------------------- pool life cycle
    def start_pool(self):
        if self.pool is not None:
            self.pool.__exit__(None, None, None)
        self.generation += 1
        w = self.world
        self.pool = PoolWorld(w.trace, self.cores, set(), clock=w.clock, memfs=False, working_dir=w.proj,
                              hash_salt=w.knobs.get("hash_seed", 0) + self.generation)
        self.pool.__enter__()
        self.pool.sock_capacity = 4096  # unread bytes a connection's socket buffers take (stalled readers)
        self.pool.on_enqueued_cb = self._enqueued
        self.pool.on_cancel_cb = self._on_cancel_request
        self.pool.table.listeners.append(self)
        self.by_script = {}
        w.trace.log("pool_started", generation=self.generation, cores=self.cores)

    def stop(self):
        if self.pool is not None:
            self.pool.__exit__(None, None, None)
            self.pool = None

    # ---------------------------------------------------------------- observation
    def _enqueued(self, name, tid, script, deps):
        if name not in self.world.model.targets and name == "foreign_task":
            return  # a task of another client of the same pool
        key = (self.generation, tid)
        self.jobs[key] = dict(name=name, script=script, deps=list(deps), proc=None, tid=tid, gen=self.generation)
        self.by_script.setdefault(script, []).append(key)

        class J:  # what World._note_accepted needs
            pass

        j = J()
        j.name, j.id, j.deps = name, tid, list(deps)
        self.world._note_accepted(j)

    def on_spawn(self, proc):
        keys = self.by_script.get(proc.script) or []
        for key in keys:
            # the task that spawns has just been published RUNNING (a skipped or cancelled twin never is)
            if self.jobs[key]["proc"] is None and self.pool.st_name(key[1]) == "RUNNING":
                self.jobs[key]["proc"] = proc

                class J:
                    pass

                j = J()
                j.id = key[1]
                self.world._note_start(j)
                return

    def on_spawn_fail(self, script, kind):
        pass

    def on_signal(self, proc, sig):
        pass

    def phase(self, key):
        """pending | running | done, from the pool's published state (current pool only)."""
        jb = self.jobs.get(key)
        if jb is None or jb["gen"] != self.generation:
            return "done" if jb is not None else None
        st = self.pool.st_name(key[1])
        if st == "SUBMITTED":
            return "pending"
        if st == "RUNNING":
            return "running"
        return "done"

    def result(self, key):
        jb = self.jobs.get(key)
        if jb is None:
            return None
        if jb["gen"] != self.generation:
            return jb.get("last_result", "lost")
        p = jb["proc"]
        if p is not None and (p.returncode is not None or p.sigkill):
            # ground truth is the process table, not what the pool publishes about it
            if p.returncode == 0 and not p.sigkill:
                return "ok"
            return "cancelled" if p.sigkill else "failed"
        st = self.pool.st_name(key[1])
        return {"COMPLETED": "ok", "FAILED": "failed", "KILLED": "timeout", "CANCELLED": "cancelled"}.get(st)

    def observable(self, key):
        """What an ideal client would be told about the target's own latest job: a pool that was restarted
        has no record of it."""
        jb = self.jobs.get(key) if key is not None else None
        if jb is None or jb["gen"] != self.generation:
            return "none"  # the pool that ran it is gone
        st = self.pool.st_name(key[1])
        return STATE_MAP.get(st, "none")

    # ---------------------------------------------------------------- Hub interface (client side)
    def open(self, addr):
        if self.pool is None or tuple(addr) != self.addr:
            raise ConnectionRefusedError(111, "Connection refused")
        self.world._seam_event("sock:connect", "connect")
        self.n_conn += 1
        return self.pool.connect(f"gwf{self.n_conn}", reset_on_drain=True)

    def client_send(self, conn, data):
        self.world._seam_event("sock:send", data.decode("utf-8", "replace")[:40])
        if getattr(conn, "reset", False):
            raise BrokenPipeError(32, "Broken pipe")
        conn.send(data)
        self.world._cmd_after("sock")

    def client_readline(self, conn):
        self.n_readline += 1
        kind = self.reply_faults.get(self.n_readline)
        if kind is not None:
            # the request is processed by the server, but the client never sees a proper reply
            self.pump()
            conn.take_lines()
            self.fired[kind] = self.fired.get(kind, 0) + 1
            self.world.fault("reply_" + kind)
            self.world.trace.log("reply_fault", k=self.n_readline, kind=kind)
            if kind in ("eof", "rst"):
                conn.abort()
                conn.reset = kind == "rst"  # the peer's RST has arrived: later sends fail with EPIPE
                return ""
            return "garbage ###\n"
        pool = self.pool
        self.world.pool_running = True
        try:
            for _ in range(100000):
                i = conn.out.find(b"\n")
                if i >= 0:
                    line = bytes(conn.out[: i + 1])
                    del conn.out[: i + 1]
                    if conn.line_meta:
                        conn.line_meta.pop(0)
                    return line.decode("utf-8")
                if conn.server_closed or conn.task.done():
                    return ""
                if not pool.loop.runnable_now():
                    # nothing can ever answer: a real client would block for ever
                    self.blocked_clients += 1
                    self.world.probe("client_blocked_forever")
                    return ""
                pool.step()
        finally:
            self.world.pool_running = False
        raise HarnessError("client_readline: iteration cap")

    def client_closed(self, conn):
        conn.abort()

    def pump(self):
        """What the separately running server does with whatever the client left behind."""
        if self.pool is None:
            return
        self.world.pool_running = True
        try:
            self.pool.run()
        finally:
            self.world.pool_running = False

    # ---------------------------------------------------------------- driver ops
    def running_jobs(self):
        out = []
        for key, jb in self.jobs.items():
            if key[0] == self.generation and jb["proc"] is not None and jb["proc"].alive and not jb["proc"].sigkill:
                out.append(jb)
        return out

    def doomed(self):
        return [jb for key, jb in self.jobs.items() if key[0] == self.generation and jb["proc"] is not None
                and jb["proc"].alive and jb["proc"].sigkill]

    def finish(self, tid, how):
        jb = self.jobs.get((self.generation, tid))
        if jb is None or jb["proc"] is None or not jb["proc"].alive:
            return False
        p = jb["proc"]
        if p._started is not None and not p._started.done():
            p.do_started()
        p.out_bytes = f"out of {tid}\n".encode()
        p.err_bytes = f"err of {tid}\n".encode()
        p.do_exit(0 if how == "ok" else (-9 if p.sigkill else 1))
        p.do_drain()
        jb["last_result"] = "ok" if how == "ok" else "failed"
        self.pump()
        return True

    def settle_timers(self):
        """Let kill sequences finish (virtual time)."""
        for _ in range(50):
            self.pump()
            for jb in self.doomed():
                jb["proc"].do_exit(-9)
                jb["proc"].do_drain()
            self.pump()
            if self.pool.loop.next_timer() is None:
                return
            self.world.pool_running = True
            try:
                dt = self.pool.advance()
            finally:
                self.world.pool_running = False
            if dt:
                self.world.sim_seconds += dt
