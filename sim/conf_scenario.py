"""C20: histories of `gwf config set/unset/get` against M_conf, and the effect of the settings
observed at the seams (which scheduler commands / connect address / directives / log level)."""
import json
import os

from . import fsx
from .world_scenario import WorldScenario

DEFAULTS = {"verbose": "info", "clean_logs": True, "use_spec_hashes": False}

ROUNDTRIP_KEYS = ["clean_logs", "use_spec_hashes", "a", "a.b", "a.bc", "a.b.c", "mybackend.slurm.log_mode",
                  "backend.slurmish.x", "backend.slurm", "backend.localhost.port", "backend.sg", "x-y", "UPPER", "k.0"]
EFFECT_KEYS = {
    "backend": ["slurm", "sge", "lsf", "local"],
    "verbose": ["debug", "info", "warning", "error"],
    "no_color": ["yes", "no", "true", "false"],
    "backend.slurm.log_mode": ["full", "merged", "none"],
    "backend.slurm.accounting_enabled": ["yes", "no", "true", "false"],
    "backend.local.host": ["localhost", "example.org", "10.0.0.7"],
    "backend.local.port": ["12345", "4242", "1"],
}
VALUES = ["0", "12", "007", "yes", "no", "true", "false", "True", "YES", "", "hello world", "1.5", "-", "x=y", "12a",
          "é", "null", "[1]", "9999999999999999999999", "caf\udce9"]


def coerce(value):
    """The statement's coercion rule: integers, yes/no/true/false, everything else text."""
    if value.isascii() and value.isdigit():
        return int(value)
    if value in ("true", "yes"):
        return True
    if value in ("false", "no"):
        return False
    return value


class ConfScenario(WorldScenario):
    def __init__(self, props, profile, seed=None, replay=None, keep_trace=True):
        super().__init__(props, profile, seed=seed, replay=replay, keep_trace=keep_trace)
        if not self.replaying:
            # one workflow file linked into the project directory from a shared place (the configuration still
            # belongs to the project: it lives next to the file gwf was pointed at)
            self.knobs["wf_symlink"] = self.rng.fork("wf_symlink").chance(0.2)

    def setup(self, w):
        super().setup(w)
        self.m_conf = dict(w.config)
        self.tracked_nonempty = set()
        self.env_no_color = False
        if self.knobs.get("wf_symlink"):
            shared = os.path.join(w.base, "sharedwf")
            os.makedirs(shared, exist_ok=True)
            wf = w.path("workflow.py")
            if not os.path.islink(wf):
                os.replace(wf, os.path.join(shared, "workflow.py"))
                os.symlink(os.path.join(shared, "workflow.py"), wf)
            w.probe("symlinked_workflow_file")

    def _init_ops(self, w, r):
        return []

    def _propose(self, w, r):
        cwd = r.pick(["root", "root", "sub", "elsewhere"])
        x = r.random()
        # global options on a config command must not change what it stores
        flags = r.pick([[], [], [], ["-v", "debug"], ["--no-color"], ["--use-color"], ["-b", "slurm"], ["-v", "warning"]])
        if x < 0.30:
            if r.chance(0.5):
                k = r.pick(list(EFFECT_KEYS))
                return {"op": "conf_set", "key": k, "value": r.pick(EFFECT_KEYS[k]), "cwd": cwd, "flags": flags}
            return {"op": "conf_set", "key": r.pick(ROUNDTRIP_KEYS), "value": r.pick(VALUES), "cwd": cwd, "flags": flags}
        if x < 0.42:
            keys = list(self.m_conf) + ROUNDTRIP_KEYS[:6] + list(EFFECT_KEYS)[:3] + ["never.set"]
            return {"op": "conf_unset", "key": r.pick(keys), "cwd": cwd, "flags": flags}
        if x < 0.62:
            # a value that cannot be printed (undecodable bytes on the command line) is not read back
            keys = [k for k, v in self.m_conf.items() if not (isinstance(v, str) and "\udce9" in v)]
            keys += ROUNDTRIP_KEYS[:4] + ["verbose", "never.set"]
            keys = [k for k in keys if not (isinstance(self.m_conf.get(k), str) and "\udce9" in self.m_conf.get(k))]
            return {"op": "conf_get", "key": r.pick(keys), "cwd": cwd}
        if x < 0.66:
            return {"op": "env_no_color", "on": r.chance(0.5)}
        flag_b = r.pick([None, None, "slurm", "sge", "lsf", "local"])
        if self.knobs.get("wf_symlink"):
            # relative paths of the workflow resolve next to the real file: commands that build the graph are not
            # part of this variant, the configuration commands are
            keys = [k for k, v in self.m_conf.items() if not (isinstance(v, str) and "\udce9" in v)] + ["verbose", "never.set"]
            return {"op": "conf_get", "key": r.pick(keys), "cwd": cwd}
        return {"op": "effect", "cmd": r.pick(["status", "status", "run"]), "b": flag_b,
                "v": r.pick([None, None, "debug", "info", "warning"]),
                "color": r.pick([None, None, "--no-color", "--use-color"]), "cwd": cwd,
                # now and then the queue query fails for the whole invocation: a switched-off accounting
                # database must not be consulted as a substitute
                "down": r.pick([None, None, None, None, None, "F1", "F4"])}

    def apply_extra(self, w, op):
        kind = op["op"]
        if kind == "conf_set":
            res = w.gwf(op.get("flags", []) + ["config", "set", op["key"], op["value"]], op["cwd"])
            self._ok(w, res, op)
            if res.exit_code == 0:
                self.m_conf[op["key"]] = coerce(op["value"])
            self._check_file(w, op)
        elif kind == "conf_unset":
            res = w.gwf(op.get("flags", []) + ["config", "unset", op["key"]], op["cwd"])
            self._ok(w, res, op)
            if res.exit_code == 0:
                self.m_conf.pop(op["key"], None)
            self._check_file(w, op)
        elif kind == "conf_get":
            res = w.gwf(["config", "get", op["key"]], op["cwd"])
            self._ok(w, res, op)
            if res.exit_code == 0:
                want = self.m_conf.get(op["key"], DEFAULTS.get(op["key"], "<not set>"))
                got = (res.stdout or res.output)
                got = got[:-1] if got.endswith("\n") else got
                w.probe("get_checks")
                if got != str(want):
                    w.flag("C20", "get_returns_other_value", f"config get {op['key']} printed {got!r}, expected {str(want)!r} "
                           f"(set keys: {self.m_conf})")
        elif kind == "env_no_color":
            self.env_no_color = op["on"]
        elif kind == "effect":
            self._effect(w, op)
        else:
            super().apply_extra(w, op)

    def _ok(self, w, res, op):
        if res.exception is not None or res.exit_code != 0:
            w.pending_violation = None
            w.flag("C20", "config_command_failed",
                   f"gwf config {op['op'][5:]} {op['key']!r} -> exit {res.exit_code} "
                   f"{type(res.exception).__name__ if res.exception else ''}: {res.exception}", command=op["op"],
                   exc=type(res.exception).__name__ if res.exception else "exit")

    def _check_file(self, w, op):
        """The file lives next to the workflow file and holds exactly the explicitly set keys."""
        p = w.path(".gwfconf.json")
        try:
            with fsx._real_open(p) as f:
                data = json.load(f)
        except (OSError, ValueError) as e:
            w.flag("C20", "config_file_unreadable", f"{e}")
            return
        if data != self.m_conf:
            w.flag("C20", "config_file_content", f"after {op['op']} {op['key']!r}: file {data}, expected {self.m_conf}")
        for stray in (os.path.join(w.proj, "d", ".gwfconf.json"), os.path.join(w.base, "elsewhere", ".gwfconf.json"),
                      os.path.join(w.base, "sharedwf", ".gwfconf.json")):
            if os.path.exists(stray):
                w.flag("C20", "config_file_misplaced", stray.replace(w.base, "$BASE"))
        w.probe("file_checks")

    def _effect(self, w, op):
        argv = []
        if op["b"]:
            argv += ["-b", op["b"]]
        if op["v"]:
            argv += ["-v", op["v"]]
        if op["color"]:
            argv.append(op["color"])
        argv.append(op["cmd"])
        conf = self.m_conf
        selected = op["b"] or conf.get("backend") or "local"
        if selected not in ("slurm", "sge", "lsf", "local"):
            return
        w.hub.connect_attempts.clear()
        if self.env_no_color:
            os.environ["NO_COLOR"] = "1"
        else:
            os.environ.pop("NO_COLOR", None)
        down = op.get("down") if selected == "slurm" else None
        try:
            res = w.gwf(argv, op["cwd"], cmd_faults=[("squeue", i, down) for i in (1, 2, 3, 4)] if down else ())
        finally:
            os.environ.pop("NO_COLOR", None)
        w.pending_violation = None  # crashes are judged below, with their own facets
        w.probe("effect_probes")
        cmds = [e for e, a, rc in res.cmd_log]
        if down:
            w.probe("effect_probes_with_queue_down")
            if not conf.get("backend.slurm.accounting_enabled", True) and "sacct" in cmds:
                w.flag("C20", "accounting_switch", "accounting_enabled=False but sacct was called when squeue failed",
                       queue_down=True)
            if op["cmd"] == "run" and res.accepted:
                self.tracked_nonempty.add(selected)
            return
        flav = {"slurm": {"sbatch", "squeue", "sacct", "scancel", "sinfo"}, "sge": {"qsub", "qstat", "qdel"},
                "lsf": {"bsub", "bjobs", "bkill"}, "local": set()}
        lookalike = [k for k in conf if k.startswith("backend.") and k.split(".")[1] not in ("slurm", "sge", "lsf", "local")
                     or k in ("backend.slurm", "backend.sge", "backend.lsf", "backend.local")]
        if res.exception is not None:
            w.flag("C20", "setting_of_other_namespace_reaches_backend" if lookalike else "effect_command_crashed",
                   f"gwf {' '.join(argv)} with config {conf} raised {type(res.exception).__name__}: {res.exception}",
                   exc=type(res.exception).__name__)
            return
        foreign = [c for c in cmds if c not in flav[selected]]
        if foreign:
            w.flag("C20", "wrong_backend_selected", f"gwf {' '.join(argv)} (config backend={conf.get('backend')}) ran {cmds}; "
                   f"expected backend {selected}")
            return
        if selected == "local":
            host = conf.get("backend.local.host", "localhost")
            port = conf.get("backend.local.port", 12345)
            att = set(w.hub.connect_attempts)
            if att != {(host, port)}:
                w.flag("C20", "local_address", f"connect attempts {sorted(att)}, expected ({host!r}, {port!r})")
            w.probe("local_address_checks")
        else:
            if w.hub.connect_attempts:
                w.flag("C20", "wrong_backend_selected", f"{selected} selected but gwf tried to connect to {w.hub.connect_attempts[:1]}")
            if res.exit_code != 0:
                w.flag("C20", "effect_command_failed", f"gwf {' '.join(argv)} exit {res.exit_code}: {(res.output or '')[-200:]}")
                return
            if selected == "slurm":
                if "squeue" not in cmds:
                    w.flag("C20", "wrong_backend_selected", f"slurm selected but squeue not called: {cmds}")
                acct = conf.get("backend.slurm.accounting_enabled", True)
                if "slurm" in self.tracked_nonempty:
                    w.probe("accounting_switch_checks")
                    if bool(acct) != ("sacct" in cmds):
                        w.flag("C20", "accounting_switch", f"accounting_enabled={acct!r} but sacct "
                               f"{'was' if 'sacct' in cmds else 'was not'} called")
                if op["cmd"] == "run":
                    mode = conf.get("backend.slurm.log_mode", "full")
                    for name, jid, deps in res.accepted:
                        script = w.cluster.jobs[jid].script
                        has_out = "#SBATCH --output=" in script
                        has_err = "#SBATCH --error=" in script
                        devnull = "#SBATCH --output=/dev/null" in script
                        want = {"full": (True, True, False), "merged": (True, False, False), "none": (True, False, True)}.get(mode)
                        w.probe("log_mode_checks")
                        if want is not None and (has_out, has_err, devnull) != want:
                            w.flag("C20", "log_mode", f"log_mode={mode!r}: script has output={has_out} error={has_err} "
                                   f"devnull={devnull}")
            if selected == "sge" and "qstat" not in cmds:
                w.flag("C20", "wrong_backend_selected", f"sge selected but qstat not called: {cmds}")
            if op["cmd"] == "run" and res.accepted:
                self.tracked_nonempty.add(selected)
        # verbosity: flag over config over default
        level = op["v"] or conf.get("verbose") or "info"
        if level in ("debug", "info", "warning", "error"):
            has_debug = "Using '" in (res.output or "")
            w.probe("verbosity_checks")
            if has_debug != (level == "debug"):
                src = "flag" if op["v"] else ("config" if conf.get("verbose") else "default")
                w.flag("C20", "verbosity", f"level {level} (from {src}): debug lines {'present' if has_debug else 'absent'}",
                       source=src)
        # colour: flag over config over environment
        if op["color"]:
            want_nc = op["color"] == "--no-color"
        elif conf.get("no_color") is not None:
            want_nc = bool(conf["no_color"])
        else:
            want_nc = self.env_no_color
        w.probe("colour_checks")
        if res.no_color != want_nc:
            w.flag("C20", "colour", f"flag {op['color']}, config no_color={conf.get('no_color')!r}, NO_COLOR env "
                   f"{self.env_no_color}: colours {'disabled' if res.no_color else 'enabled'}")

    def nontrivial(self, w):
        return w.probes.get("get_checks", 0) + w.probes.get("effect_probes", 0) > 0
