"""Shared pieces of the Engine P checks (C11-C14)."""
from sim.pool_scenario import PoolScenario

COMPONENTS = {
    "real": [
        "gwf.backends.local.Scheduler (enqueue_task, cancel_task, try_handle_task, _gentle_kill)",
        "gwf.backends.local.Server.handle_connection, encode/decode",
        "asyncio tasks, futures, Semaphore, StreamReader, wait, wait_for/timeouts (CPython 3.12)",
    ],
    "stub": [
        "event loop selector and clock (sim.loop.SimLoop: virtual time, no real I/O)",
        "child processes (sim.proc.SimProc: two-phase exit modelled on BaseSubprocessTransport)",
        "TCP connections (sim.pool.Conn feeding real StreamReaders)",
        "log directory (in-memory, seam: name `open` in gwf.backends.local)",
    ],
}

ASSUMPTIONS = [
    "SimProc reproduces asyncio.subprocess semantics (selftest/proc_conformance.py compares with real processes)",
    "the ready queue is FIFO and external events are delivered between loop iterations, as a real selector would",
    "virtual time advances only when nothing is runnable",
    "sampling of schedules and fault sequences, not enumeration: a clean batch is evidence, not proof",
]


def simplify_op(op):
    """Candidate simplifications of one op (tried in order by the minimiser)."""
    out = []
    if op.get("then") is not None:
        out.append(dict(op, then=None))
    if op["op"] == "submit":
        plan = dict(op["plan"])
        for key in ("spawn_wait", "log_fail", "children"):
            if key in plan:
                p2 = dict(plan)
                del p2[key]
                out.append(dict(op, plan=p2))
        if plan.get("out_len") or plan.get("err_len"):
            out.append(dict(op, plan=dict(plan, out_len=0, err_len=0)))
        if op.get("deps"):
            for i in range(len(op["deps"])):
                out.append(dict(op, deps=op["deps"][:i] + op["deps"][i + 1:]))
        if op.get("limit") is not None:
            out.append(dict(op, limit=None))
    if op["op"] in ("exit", "exitdrain") and op.get("code") not in (0, 1, -9):
        out.append(dict(op, code=1))
    return out


def simplify_knobs(knobs):
    out = []
    for c in range(1, knobs["cores"]):
        out.append(dict(knobs, cores=c))
    return out


def make(props, profile):
    def make_scenario(seed=None, replay=None):
        return PoolScenario(props, seed=seed, replay=replay, profile=profile, keep_trace=False)

    return make_scenario
