from checks._pool_common import ASSUMPTIONS, COMPONENTS, make, simplify_knobs, simplify_op  # noqa: F401

PROP = "C14"
LEVEL = "exploration"
RUNS = {"quick": 50000, "thorough": 2000000}
BUDGET_S = {"quick": 45, "thorough": 840}
CHUNK = 400
RULE = ("One evaluation = one seeded run with one well-behaved and 1-3 misbehaving client connections (abort without close, abort right after enqueue, EOF, 26 kinds of malformed/ill-typed/unknown/over-long/truncated requests, cancel of unknown ids, dependency on never-issued ids) interleaved with the task events of C11. Oracles: every accepted task (also those accepted from malformed requests) reaches a final state; get_task_states on the healthy connection equals the pool's table at the instant of the answer and its key set equals the ids issued so far; ids never repeat; enqueue replies carry the id the scheduler assigned; after the faults stop a new task is accepted and run. Non-trivial = a client fault fired and a state query was answered.")
make_scenario = make({"C14"}, "pool_clients")
