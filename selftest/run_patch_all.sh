#!/bin/bash
# Apply a patch to a scratch copy of /repo HEAD and run every registered check (quick tier) against it.
# usage: selftest/run_patch_all.sh <patch.diff> [checks...]     (used for behaviour-preserving refactorings:
# every check must stay silent)
cd "$(dirname "$0")/.."
patch=$(readlink -f "$1"); shift
checks=${@:-$(/venv/bin/python -c "import json;print(' '.join(c['property_id'] for c in json.load(open('MANIFEST.json'))['checks']))")}
d=$(mktemp -d -p /dev/shm gwfrefac-XXXXXX)
git -C /repo archive HEAD | tar -x -C $d
(cd $d && git init -q . && git apply $patch 2>/dev/null) || { echo "PATCH DOES NOT APPLY (strict)"; rm -rf $d; exit 3; }
rc=0
for p in $checks; do
  out=$(VERIF_GWF_SRC=$d/src ./check $p --no-evidence 2>&1); r=$?
  echo "$p exit=$r $(echo "$out" | tail -1)"
  if [ $r -ne 0 ]; then rc=1; echo "$out" | grep -v "^KNOWN-FINDING\|^WARNING" | tail -6 | cut -c1-400; fi
done
rm -rf $d
exit $rc
