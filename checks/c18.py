from checks._world_common import ASSUMPTIONS, COMPONENTS, make, simplify_knobs, simplify_op  # noqa: F401
from sim.cmd_scenario import CmdScenario

PROP = "C18"
LEVEL = "exploration"
RUNS = {"quick": 3000, "thorough": 100000}
BUDGET_S = {"quick": 50, "thorough": 840}
CHUNK = 50
RULE = ('One evaluation = one seeded history over run / dry-run / status / touch / clean / spec edit / hashing on|off (via gwf config) / rename / remove / add target / run with the k-th submission rejected. Oracle: parsed .gwf/spec-hashes.json == M_hash after every gwf command (set on accepted submission or touch while enabled, erased on clean, untouched otherwise), and every status table == M_status computed with M_hash.')
RULE += (" Histories also contain interrupted or failing gwf invocations (hard kill at a seam event, Ctrl-C, ENOSPC, a failing or "
         "unreachable scheduler command) - only the invocations after them are judged - and 1-2 % of the runs use 140-260 targets.")
PROFILE = dict(
    nontrivial_probes=['hash_file_checks'],
    sizes=[1, 2, 3, 3, 4, 4, 5, 6, 8, 12, 16, 25],
    backends=["slurm", "slurm", "sge", "lsf", "local"],
    weights=dict(faulted=0.3, run=3, dry_run=1, status=2, start=2, finish=2.5, purge=0.3, acct_flush=0.3, modify_source=0.3,
                 delete_output=0.3, edit_spec=2.5, touch=1.5, clean=1.5, toggle_hashing=1, rename=0.4, remove=0.3, add=0.3,
                 reject_submit=1, advance=0.5),
    p_job_ok=0.8, spec_variety=True, p_hashing=0.7, p_huge=0.01,
)
make_scenario = make({"C18"}, PROFILE, CmdScenario)
