#!/venv/bin/python
"""Real-process demonstration behind known finding F-C13-2 and conformance of the simulator's process-group
model: (1) the REAL gwf local Scheduler on the real asyncio loop cancels / times out a task whose script
started a child: the task is CANCELLED / KILLED while the child keeps running; (2) the same script started
in its own session and signalled with os.killpg takes the child down (what SimProc.group_signal models).
Exit 0 = reality matches the model (child survives in (1), dies in (2))."""
import asyncio
import os
import signal
import sys
import tempfile
import time

sys.path.insert(0, os.environ.get("VERIF_GWF_SRC", "/repo/src"))
from gwf.backends.local import LocalStatus, Scheduler  # noqa: E402


def alive(pid):
    try:
        os.kill(pid, 0)
    except ProcessLookupError:
        return False
    try:
        with open(f"/proc/{pid}/stat") as f:
            return f.read().split(")")[1].split()[0] != "Z"
    except FileNotFoundError:
        return False


async def with_gwf(tmp, how):
    os.makedirs(os.path.join(tmp, ".gwf", "logs"), exist_ok=True)
    pidfile = os.path.join(tmp, f"child-{how}.pid")
    script = f"sleep 60 & echo $! > {pidfile}; wait"
    s = Scheduler(tmp, 1)
    tid = await s.enqueue_task("T", script, tmp, 0.5 if how == "timeout" else None, [])
    for _ in range(100):
        await asyncio.sleep(0.05)
        if os.path.exists(pidfile) and open(pidfile).read().strip():
            break
    child = int(open(pidfile).read())
    if how == "cancel":
        await s.cancel_task(tid)
    await asyncio.wait([s.tasks[tid]], timeout=15)
    state = s.task_states[tid]
    await asyncio.sleep(0.2)
    survived = alive(child)
    if survived:
        os.kill(child, signal.SIGKILL)
    return state, survived


async def with_group(tmp):
    pidfile = os.path.join(tmp, "child-group.pid")
    p = await asyncio.create_subprocess_shell(f"sleep 60 & echo $! > {pidfile}; wait", start_new_session=True)
    for _ in range(100):
        await asyncio.sleep(0.05)
        if os.path.exists(pidfile) and open(pidfile).read().strip():
            break
    child = int(open(pidfile).read())
    os.killpg(os.getpgid(p.pid), signal.SIGKILL)
    await p.wait()
    await asyncio.sleep(0.2)
    return alive(child)


def main():
    tmp = tempfile.mkdtemp(prefix="gwfchild-", dir="/dev/shm")
    ok = True
    try:
        for how in ("cancel", "timeout"):
            state, survived = asyncio.run(with_gwf(tmp, how))
            print(f"real gwf Scheduler, {how}: task state {state.name}; child of the script still running: {survived}")
            ok &= survived and state in (LocalStatus.CANCELLED, LocalStatus.KILLED)
        g = asyncio.run(with_group(tmp))
        print(f"own session + os.killpg(SIGKILL): child still running: {g}")
        ok &= not g
    finally:
        import shutil

        shutil.rmtree(tmp, ignore_errors=True)
    print("model conforms to reality" if ok else "MODEL AND REALITY DISAGREE")
    return 0 if ok else 1


if __name__ == "__main__":
    sys.exit(main())
