from checks._world_common import ASSUMPTIONS, COMPONENTS, make, simplify_knobs, simplify_op  # noqa: F401

PROP = "C02"
LEVEL = "exploration"
RUNS = {"quick": 4500, "thorough": 120000}
BUDGET_S = {"quick": 50, "thorough": 840}
CHUNK = 50
RULE = ("One evaluation = one seeded history that leaves mixed backend states (pending, running, failed, cancelled, finished, purged) followed by `gwf run [patterns]`; the submissions received by the simulated scheduler (job name, dependency ids parsed by the scheduler's own grammar) must equal M_plan: cone of the selection, exactly {failed, cancelled, shouldrun}, each once, after its same-run prerequisites, prerequisite ids = ids of exactly the incomplete direct dependencies (new id if resubmitted in this run, tracked id if in flight). Non-trivial = at least one run was checked; distinct = different digest.")
RULE += (" Histories also contain interrupted or failing gwf invocations (hard kill at a seam event, Ctrl-C, ENOSPC, a failing or "
         "unreachable scheduler command) - only the invocations after them are judged - and 1-2 % of the runs use 140-260 targets.")
PROFILE = dict(
    nontrivial_probes=['plan_checks_with_backend_states'],
    backends=["slurm", "slurm", "sge", "lsf", "local"],
    sizes=[2, 3, 4, 4, 5, 6, 8, 10, 16, 25],
    weights=dict(run=5, faulted=0.6, gwf_cancel=0.4, pool_restart=0.2, dry_run=0.5, status=0.5, start=3, finish=3, sched_cancel=1, purge=0.7, acct_flush=0.7,
                 modify_source=0.7, delete_output=0.7, touch_file=0.5, advance=0.5),
    p_nested=0.1, p_job_ok=0.5, spec_variety=True, p_hashing=0.3, p_huge=0.01,
)
make_scenario = make({"C02"}, PROFILE)
