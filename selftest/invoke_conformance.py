#!/venv/bin/python
"""Stub conformance: an in-process incarnation (sim.invoke + simulated Slurm) and a REAL `gwf` subprocess
with stub executables on PATH give the same stdout, stderr, exit code and state files for a short
command sequence on the same generated project."""
import json
import os
import shutil
import stat
import subprocess
import sys
import tempfile

ROOT = os.path.dirname(os.path.dirname(os.path.abspath(__file__)))
sys.path.insert(0, ROOT)

SBATCH = """#!/bin/sh
d="$(dirname "$0")"
n=$(cat "$d/counter")
echo $((n+1)) > "$d/counter"
echo "$n;PD" >> "$d/queue"
echo "$n"
"""
SQUEUE = """#!/bin/sh
cat "$(dirname "$0")/queue"
"""
NOOP = "#!/bin/sh\nexit 0\n"
SCANCEL = """#!/bin/sh
d="$(dirname "$0")"
for a in "$@"; do case "$a" in -*) ;; *) sed "s/^$a;.*/$a;CA/" "$d/queue" > "$d/q2"; mv "$d/q2" "$d/queue"; echo "scancel: Terminating job $a" >&2;; esac; done
"""
COMMANDS = [["status"], ["run"], ["status"], ["run", "--dry-run"], ["status", "-f", "summary"], ["cancel", "-f"],
            ["status", "--endpoints"], ["info"]]


def main():
    if os.environ.get("PYTHONHASHSEED") != "0":
        os.environ["PYTHONHASHSEED"] = "0"
        os.execv(sys.executable, [sys.executable, "-B"] + sys.argv)
    from sim.prng import Rng
    from sim.trace import Trace
    from sim.wfgen import gen_model, render
    from sim.world import World

    model = gen_model(Rng(5), 4, None, p_no_outputs=0.0, subdir=True, templates=True, exotic_shapes=True)
    knobs = dict(backend="slurm", first_id=1000, accounting=True, granularity=1.0, cwd="root")
    sim_out = []
    w = World(Trace(keep=False), knobs, set(), model)
    with w:
        for f in model.sources:
            with open(w.path(f), "wb") as fh:
                fh.write(b"src\n")
        proj_sim = w.proj
        for argv in COMMANDS:
            r = w.gwf(argv, "root")
            tracked = w.read_tracked()
            sim_out.append((argv, r.exit_code, r.stdout.replace(proj_sim, "$P"), r.stderr.replace(proj_sim, "$P"), tracked))
    # real
    d = tempfile.mkdtemp(prefix="gwfreal-", dir="/dev/shm")
    bad = 0
    try:
        proj = os.path.join(d, "p")
        os.makedirs(os.path.join(proj, "d"))
        bins = os.path.join(d, "bin")
        os.makedirs(bins)
        for name, text in (("sbatch", SBATCH), ("squeue", SQUEUE), ("sacct", NOOP), ("sinfo", NOOP), ("scancel", SCANCEL)):
            p = os.path.join(bins, name)
            open(p, "w").write(text)
            os.chmod(p, os.stat(p).st_mode | stat.S_IEXEC)
        open(os.path.join(bins, "counter"), "w").write("1000\n")
        open(os.path.join(bins, "queue"), "w").write("")
        open(os.path.join(proj, "workflow.py"), "w").write(render(model, proj))
        json.dump({"backend": "slurm"}, open(os.path.join(proj, ".gwfconf.json"), "w"))
        for f in model.sources:
            open(os.path.join(proj, f), "wb").write(b"src\n")
        env = dict(os.environ, PATH=bins + ":" + os.environ["PATH"], PYTHONPATH=os.environ.get("VERIF_GWF_SRC", "/repo/src"),
                   PYTHONHASHSEED="0", NO_COLOR="")
        env.pop("NO_COLOR")
        for (argv, code, out, err, tracked) in sim_out:
            cp = subprocess.run([sys.executable, "-B", "-c", "from gwf.cli import main; main()"] + argv, cwd=proj, env=env,
                                capture_output=True, text=True)
            try:
                rt = json.load(open(os.path.join(proj, ".gwf", "slurm-backend-tracked.json")))
            except FileNotFoundError:
                rt = {}
            same = (cp.returncode == code and cp.stdout.replace(proj, "$P") == out and cp.stderr.replace(proj, "$P") == err
                    and rt == tracked)
            print(f"gwf {' '.join(argv)}: {'same' if same else 'DIFFERENT'} (exit {cp.returncode}/{code}, "
                  f"{len(cp.stdout)} bytes stdout, tracked {len(rt)} jobs)")
            if not same:
                bad += 1
                print("  real stdout:", cp.stdout[:300].replace(proj, "$P"), "\n  sim  stdout:", out[:300])
                print("  real stderr:", cp.stderr[:300].replace(proj, "$P"), "\n  sim  stderr:", err[:300])
                print("  real tracked:", rt, "\n  sim  tracked:", tracked)
    finally:
        shutil.rmtree(d, ignore_errors=True)
    return 1 if bad else 0


if __name__ == "__main__":
    sys.exit(main())
