from checks._world_common import ASSUMPTIONS, COMPONENTS, make, simplify_knobs, simplify_op  # noqa: F401
from sim.script_scenario import ScriptScenario

PROP = "C10"
LEVEL = "exploration"
RUNS = {"quick": 3000, "thorough": 300000}
BUDGET_S = {"quick": 50, "thorough": 840}
CHUNK = 20
RULE = ("One evaluation = one seeded history in the real-bash profile: the simulated Slurm/SGE/LSF parses the received script with its own directive reader and RUNS it with real bash from a foreign cwd, stdout/stderr wired as the directives say. Differential: project files and exit status after the scheduler-run script == after `cd <target wd> && bash -e` on the bare spec in a pristine copy, for generated specs (multi-line, with/without trailing/leading newline, quotes, $, heredocs, a failing command in the middle) and project directory names with spaces, quotes, ; & $ ( ) * # and non-ASCII, and template targets with their own working directory. Directive multiset == options resolved by an independent precedence chain (backend default < workflow default < template < target; None omitted; unknown dropped with a warning; SGE memory per core). `gwf logs` == the job's real output per log mode. A run deletes only logs of targets no longer in the workflow, none with clean_logs off, none on dry-run. Spec/option/dirname dimensions are sampled inputs (the weakest fit to this technique family among the claimed properties).")
PROFILE = dict(
    nontrivial_probes=["scripts_executed", "directive_checks"],
    backends=["slurm", "slurm", "sge", "lsf"],
    sizes=[1, 2, 3, 4],
    lengths=[6, 10, 14],
    cwds=["root", "root", "sub"],
    real_bash=True,
    p_instant_start=0.3,
    weights=dict(run=3, dry_run=0.3, start=4, finish=4, purge=0.3, modify_source=0.3, delete_output=0.5, edit_spec=0.3),
    p_job_ok=1.0, p_hashing=0.1, p_no_outputs=0.1,
    force_knobs={"acct_lag": False},
)
make_scenario = make({"C10"}, PROFILE, ScriptScenario)
