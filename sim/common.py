"""Shared small types: violations, harness errors, gwf import location."""
import os
import sys


class HarnessError(Exception):
    """A problem of the simulator itself; never reported as a VIOLATION."""


class Violation(Exception):
    def __init__(self, prop, rule, detail="", facets=None):
        super().__init__(f"{prop}:{rule}: {detail}")
        self.prop = prop
        self.rule = rule
        self.detail = detail
        self.facets = dict(facets or {})

    def signature(self):
        return {"property": self.prop, "rule": self.rule, "facets": self.facets}

    def sig_key(self):
        return (self.prop, self.rule, tuple(sorted(self.facets.items())))


class SimAbort(BaseException):
    """Raised from inside a simulated seam to stop a run at once with a violation (BaseException so that no
    `except Exception` of the code under test can swallow it)."""

    def __init__(self, violation):
        super().__init__(str(violation))
        self.violation = violation


def gwf_src():
    """Where gwf is imported from: the working tree of /repo (or a mutant copy)."""
    return os.environ.get("VERIF_GWF_SRC", "/repo/src")


def ensure_gwf_on_path():
    src = gwf_src()
    if sys.path[:1] != [src]:
        if src in sys.path:
            sys.path.remove(src)
        sys.path.insert(0, src)
    import logging

    import gwf  # noqa

    # without a handler, gwf's own log records would fall through to logging.lastResort (stderr)
    lg = logging.getLogger("gwf")
    if not any(isinstance(h, logging.NullHandler) for h in lg.handlers):
        lg.addHandler(logging.NullHandler())

    real = os.path.realpath(os.path.dirname(gwf.__file__))
    want = os.path.realpath(os.path.join(src, "gwf"))
    if real != want:
        raise HarnessError(f"gwf imported from {real}, expected {want}")
