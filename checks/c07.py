from checks._world_common import ASSUMPTIONS, COMPONENTS, make, simplify_knobs, simplify_op  # noqa: F401

PROP = "C07"
LEVEL = "exploration"
RUNS = {"quick": 3000, "thorough": 120000}
BUDGET_S = {"quick": 50, "thorough": 840}
CHUNK = 50
RULE = "placeholder"
PROFILE = dict(
    nontrivial_probes=["job_starts_with_producers"],
    backends=["slurm", "slurm", "sge", "lsf", "local", "local"],
    sizes=[2, 3, 4, 5, 6, 8],
    lengths=[10, 14, 20, 30],
    interleave=0.35,
    weights=dict(run=3, start=4, finish=4, sched_cancel=0.6, purge=0.5, acct_flush=0.3, modify_source=0.5,
                 delete_output=0.5, status=0.2, advance=0.3),
    p_job_ok=0.55, p_hashing=0.2,
)
make_scenario = make({"C07"}, PROFILE)
