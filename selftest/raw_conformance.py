#!/venv/bin/python
"""Stub conformance: the chunks in which a JSON state file reaches the kernel through SimRaw (sim/fsx.py)
equal the write(2) sizes of the real open()/json.dump stack (observed with strace), so that "kill inside
the k-th write" leaves the same bytes in the simulation as a real SIGKILL would."""
import json
import os
import re
import shutil
import subprocess
import sys
import tempfile

ROOT = os.path.dirname(os.path.dirname(os.path.abspath(__file__)))
sys.path.insert(0, ROOT)


def real_chunks(payload, path):
    code = f"import json; json.dump(json.load(open({payload!r})), open({path!r}, 'w'))"
    cp = subprocess.run(["strace", "-f", "-e", "trace=write,openat", "-o", path + ".strace", sys.executable, "-B", "-c", code],
                        capture_output=True, text=True)
    fd = None
    sizes = []
    for ln in open(path + ".strace"):
        m = re.search(r'openat\(.*"%s".*\) = (\d+)' % re.escape(path), ln)
        if m:
            fd = m.group(1)
        m = re.search(r"write\((\d+), .*\) = (\d+)", ln)
        if m and fd is not None and m.group(1) == fd:
            sizes.append(int(m.group(2)))
    return sizes


def sim_chunks(payload, path):
    from sim import fsx
    from sim.loop import Clock

    sizes = []

    def seam(kind, rel, **kw):
        if kind == "write":
            sizes.append(kw["nbytes"])

    fsx.install()
    fs = fsx.FS(os.path.dirname(path), Clock(), seam)
    fsx.FS.current = fs
    try:
        with open(path, "w") as f:
            json.dump(json.load(open(payload)), f)
    finally:
        fsx.FS.current = None
    return sizes


def main():
    d = tempfile.mkdtemp(prefix="gwfraw-", dir="/dev/shm")
    bad = 0
    try:
        for n in (3, 60, 400, 2000):
            payload = os.path.join(d, "payload.json")
            with open(payload, "w") as f:
                json.dump({f"Target_{i}": str(100000 + i) for i in range(n)}, f)
            r = real_chunks(payload, os.path.join(d, "real.json"))
            s = sim_chunks(payload, os.path.join(d, "sim.json"))
            same_bytes = open(os.path.join(d, "real.json"), "rb").read() == open(os.path.join(d, "sim.json"), "rb").read()
            ok = r == s and same_bytes
            print(f"{n} entries: real write(2) sizes {r}; SimRaw seam sizes {s}: {'same' if ok else 'DIFFERENT'}")
            bad += not ok
    finally:
        shutil.rmtree(d, ignore_errors=True)
    return 1 if bad else 0


if __name__ == "__main__":
    sys.exit(main())
