from checks._world_common import ASSUMPTIONS, COMPONENTS, make, simplify_knobs, simplify_op  # noqa: F401
from sim.cmd_scenario import CmdScenario

PROP = "C15"
LEVEL = "exploration"
RUNS = {"quick": 2500, "thorough": 100000}
BUDGET_S = {"quick": 50, "thorough": 840}
CHUNK = 50
RULE = "placeholder"
PROFILE = dict(
    backends=["slurm", "slurm", "sge", "lsf"],
    sizes=[2, 3, 4, 5, 6, 8],
    protect=True, p_init_outputs=0.8,
    weights=dict(clean=4, clean_io_fault=0.25, run=1, start=1, finish=1.5, set_file=1.5, delete_output=0.5, touch=0.5,
                 toggle_hashing=0.3, advance=0.3),
    p_job_ok=0.8, p_hashing=0.5,
)
make_scenario = make({"C15"}, PROFILE, CmdScenario)
