"""Deterministic simulation with fault injection for gwf (see /verif/DESIGN.md)."""
