#!/venv/bin/python
"""Re-run the owning check against every adopted seeded change on the current /repo HEAD (patches are applied
to a scratch copy with fuzz) and refresh seeded/RESULTS.json; prints the ones that no longer apply or are missed."""
import json
import os
import subprocess
import sys

ROOT = os.path.dirname(os.path.dirname(os.path.abspath(__file__)))


def main():
    rp = os.path.join(ROOT, "seeded", "RESULTS.json")
    res = json.load(open(rp))
    only = sys.argv[1:]
    bad = 0
    for name in sorted(res):
        if only and not any(name.startswith(o) for o in only):
            continue
        d = os.path.join(ROOT, "seeded", name)
        prop = res[name].get("caught_by") or name[:3]
        cp = subprocess.run([os.path.join(ROOT, "selftest", "seeded.py"), "run", d, prop], capture_output=True, text=True)
        out = cp.stdout + cp.stderr
        if "patch does not apply" in out:
            print(name, "PATCH DOES NOT APPLY", flush=True)
            res[name]["recheck"] = "patch does not apply"
            bad += 1
            continue
        caught = "exit 1" in out
        res[name]["recheck"] = "caught" if caught else "MISSED"
        print(name, "caught" if caught else "MISSED", flush=True)
        bad += not caught
    json.dump(res, open(rp, "w"), indent=1)
    return 1 if bad else 0


if __name__ == "__main__":
    sys.exit(main())
