from checks._world_common import ASSUMPTIONS, COMPONENTS, make, simplify_op  # noqa: F401
from sim.conf_scenario import ConfScenario

PROP = "C20"
LEVEL = "exploration"
RUNS = {"quick": 6000, "thorough": 100000}
BUDGET_S = {"quick": 50, "thorough": 840}
CHUNK = 50
RULE = ("One evaluation = one seeded history of `gwf config set/unset/get` (fresh incarnation each, from the project root, a sub-directory, or elsewhere with -f) over keys incl. dotted keys sharing prefixes and look-alike namespaces, values incl. digits, boolean words, empty, unicode, undecodable bytes (surrogate escapes), against M_conf (file content == explicitly set keys, get == set value coerced by the statement's rule or default or '<not set>'), interleaved with effect probes `gwf [-b X] [-v L] [--no-color|--use-color] status|run` observed at the seams: which scheduler executables run / which address is connected to (backend = flag over config over default), sacct called iff accounting enabled, log directives per log_mode, debug lines iff level debug (flag over config over default), click's tty hack iff colours disabled (flag over config over NO_COLOR).")
PROFILE = dict(backends=["multi"], sizes=[1, 2, 3], lengths=[4, 8, 12, 20], weights={}, p_hashing=0.0, cwds=["root"],
               exotic_shapes=False)
make_scenario = make({"C20"}, PROFILE, ConfScenario)


def simplify_knobs(knobs):
    return []
