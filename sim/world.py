"""Engine W: many real gwf invocations against one durable project directory and one simulated
scheduler.  Holds the ground truth (M_truth), the reference models (M_stale, M_status, M_plan,
M_hash) and the observation points of the World-level oracles."""
import fnmatch
import json
import os
import re
import shutil

from . import fsx
from .cluster import FAIL_KINDS, PHASE_CODES, Cluster, FakePopen, Fault
from .common import HarnessError, Violation
from .fsx import FS, SimKill
from .invoke import install, invoke
from .loop import Clock
from .wfgen import WModel, render

SCRATCH_BASE = "/dev/shm" if os.path.isdir("/dev/shm") else os.environ.get("TMPDIR", "/tmp")


def scratch_dir():
    return os.path.join(SCRATCH_BASE, "gwfsim-%07d" % os.getpid())


class World:
    def __init__(self, trace, knobs, props, model: WModel):
        install()
        self.trace = trace
        self.knobs = knobs
        self.props = set(props)
        self.model = model
        self.clock = Clock()
        self.base = scratch_dir()
        self.proj = os.path.join(self.base, knobs.get("proj_name") or "p")
        self.backend = knobs["backend"]
        self.pending_violation = None
        self.probes = {}
        self.faults = {}
        self.sim_seconds = 0.0
        self.n_invocations = 0
        self.latest = {}  # M_truth: target name -> id of the latest job accepted from a gwf invocation
        self.latest_gen = {}  # local pool only: generation of the pool that issued that id
        self.accepted_gen = {}  # local pool only: (name, id) -> generation
        self.orphan_ids = set()  # ids of accepted jobs that no gwf invocation can know (killed before the id was recorded)
        self.k3_lost = set()  # names whose accepted job id gwf could not have seen (kill inside submission)
        self.m_hash = {}  # M_hash
        self.hashing = bool(knobs.get("hashing"))
        self.clean_logs = knobs.get("clean_logs", True)
        self.config = {}  # M_conf (explicitly set keys)
        self.job_model = {}  # job id -> (outputs, log paths) captured at submission
        self.seam_count = 0
        self.seam_log = []  # (kind, detail) of every seam event of the current / latest invocation
        self.last_run_seams = 12  # seam events of the latest complete `gwf run` (to place faults in the next one)
        self.last_gwf_faulted = False
        self.on_job_start_extra = None  # scenario hook(job) at every job start
        self.nested_at = None  # {i: argv}: a complete read-only gwf invocation of "another terminal" before the i-th submission
        self.nest_depth = 0
        self.submit_seams = 0
        self.cancel_requested_ids = set()  # cluster job ids some gwf invocation asked the scheduler to cancel
        self.history_accepted = []  # every (name, id, deps) accepted so far, in order
        self.kill_at = None  # (k, 'before'|'after') for the current invocation
        self.intr_at = None  # k: KeyboardInterrupt at seam event k
        self.io_fault = None  # (k, errno) fail seam event k if it is a file mutation
        self.frozen = False
        self.in_invocation = False
        self.accepted_now = []  # (name, id, deps) accepted during the current invocation
        self.cancel_now = []
        self.between_seams = None  # hook() called at each seam event of an invocation (C07 interleaving)
        self.pool = None
        self.local = None
        self.states_seen = set()

    # ------------------------------------------------------------------ life cycle
    def __enter__(self):
        from . import invoke as _inv

        _inv.HASH_SEED[0] = self.knobs.get("hash_seed", 0)
        if os.path.isdir(self.base):
            shutil.rmtree(self.base)
        os.makedirs(self.proj)
        os.makedirs(os.path.join(self.proj, "d"))
        os.makedirs(os.path.join(self.base, "elsewhere"))
        kn = self.knobs
        self.fs = FS(self.proj, self.clock, self._fs_seam, granularity=kn.get("granularity", 1.0 / 1024),
                     tick_per_op=kn.get("tick_per_op", 0))
        FS.current = self.fs
        if self.backend in ("slurm", "sge", "lsf"):
            self.cluster = Cluster(self.backend, self.trace, kn.get("first_id", 1000), accounting=kn.get("accounting", True),
                                   sacct_limit=kn.get("sacct_batch"), kill_invalid_depend=kn.get("kill_invalid_depend", False),
                                   acct_lag=kn.get("acct_lag", False))
            self.cluster.on_command = self._cmd_seam
            self.cluster.after_command = self._cmd_after
            self.cluster.on_accept = self._note_accepted
            self.cluster.on_start = self._note_start
            if self.backend == "slurm" and kn.get("cluster_name"):
                self.cluster.cluster_name = kn["cluster_name"]
            FakePopen.cluster = self.cluster
            if self.backend == "slurm" and kn.get("sacct_batch"):
                import gwf.backends.slurm as S

                # tuning knob: the batch size is a default argument; if a refactoring moved it, the knob is
                # simply not applied (and the simulated sacct then accepts any number of ids)
                fn = getattr(getattr(S, "SlurmOps", None), "get_job_states_from_sacct_batched", None)
                if fn is not None and getattr(fn, "__defaults__", None) and len(fn.__defaults__) == 1:
                    self._saved_defaults = fn.__defaults__
                    fn.__defaults__ = (kn["sacct_batch"],)
                else:
                    self.cluster.sacct_limit = None
        elif self.backend == "multi":
            from .cluster import MultiCluster
            from .sock import Hub, SocketProxy, TimeProxy

            self.cluster = MultiCluster(self.trace, kn.get("first_id", 1000))
            self.cluster.on_accept = self._note_accepted
            self.cluster.on_command = self._cmd_seam
            self.cluster.after_command = self._cmd_after
            FakePopen.cluster = self.cluster
            self.hub = Hub()
            SocketProxy.hub = self.hub
            TimeProxy.clock = self.clock
        elif self.backend == "local":
            from .localw import LocalAdapter
            from .sock import SocketProxy, TimeProxy

            self.cluster = None
            self.job_gen = {}
            self.pool_running = False
            self.local = LocalAdapter(self, kn.get("cores", 2))
            SocketProxy.hub = self.local
            TimeProxy.clock = self.clock
        else:
            self.cluster = None
        conf = {"backend": self.backend} if self.backend != "multi" else {}
        if self.hashing:
            conf["use_spec_hashes"] = True
        if not self.clean_logs:
            conf["clean_logs"] = False
        if self.backend == "slurm":
            if not kn.get("accounting", True):
                conf["backend.slurm.accounting_enabled"] = False
            if kn.get("log_mode"):
                conf["backend.slurm.log_mode"] = kn["log_mode"]
        self.config = dict(conf)
        with fsx._real_open(os.path.join(self.proj, ".gwfconf.json"), "w") as f:
            json.dump(conf, f)
        self.write_workflow()
        return self

    def __exit__(self, *exc):
        FS.current = None
        FakePopen.cluster = None
        from .sock import SocketProxy, TimeProxy

        SocketProxy.hub = None
        TimeProxy.clock = None
        if getattr(self, "_saved_defaults", None) is not None:
            import gwf.backends.slurm as S

            S.SlurmOps.get_job_states_from_sacct_batched.__defaults__ = self._saved_defaults
            self._saved_defaults = None
        if self.local is not None:
            self.local.stop()
        shutil.rmtree(self.base, ignore_errors=True)
        return False

    # ------------------------------------------------------------------ helpers
    def probe(self, name, n=1):
        self.probes[name] = self.probes.get(name, 0) + n

    def fault(self, name, n=1):
        self.faults[name] = self.faults.get(name, 0) + n

    def flag(self, prop, rule, detail, **facets):
        if prop in self.props and self.pending_violation is None:
            detail = detail.replace(self.base, "$BASE")  # the scratch path contains the worker's pid
            # (also where an excerpt of gwf's output cut the path in two, and gwf's own wall-clock timings)
            detail = re.sub(r"gwfsim-\d{7}", "gwfsim-PID", detail)
            detail = re.sub(r"\b\d+(\.\d+)?\s?ms\b", "N ms", detail)
            facets.setdefault("backend", self.backend)
            if self.local is not None and self.local.generation > 1:
                facets.setdefault("pool_restarted", True)
            self.pending_violation = Violation(prop, rule, detail, facets)
            self.trace.log("violation", prop=prop, rule=rule, detail=detail)

    def path(self, rel):
        return os.path.join(self.proj, rel)

    def write_workflow(self):
        self.model.invalidate()
        text = render(self.model, self.proj)
        with fsx._real_open(self.path("workflow.py"), "w") as f:
            f.write(text)

    def advance(self, dt):
        self.clock.advance(dt)
        self.sim_seconds += dt

    # ------------------------------------------------------------------ seams
    def _seam_event(self, kind, detail):
        """Common bookkeeping of one seam event of the current invocation."""
        if not self.in_invocation or getattr(self, "pool_running", False):
            return
        if self.frozen:
            raise SimKill()
        self.seam_count += 1
        k = self.seam_count
        self.seam_log.append((kind, detail))
        self.trace.log("seam" if self.nest_depth == 0 else "seam_nested", k=k, kind=kind, detail=detail)
        if self.between_seams is not None:
            self.between_seams(kind, detail)
        if self.nested_at and self.nest_depth == 0 and (
                kind in ("cmd:sbatch", "cmd:qsub", "cmd:bsub") or (kind == "sock:send" and "enqueue_task" in detail)):
            self.submit_seams += 1
            argv = self.nested_at.pop(self.submit_seams, None)
            if argv:
                self.nested_gwf(argv)
        if self.kill_at is not None and self.kill_at == (k, "before"):
            self.frozen = True
            self.fault("kill_before_" + kind.split(":")[0])
            self.trace.log("killed", k=k, when="before")
            raise SimKill()
        if self.intr_at is not None and self.intr_at == k:
            self.intr_at = None
            self.fault("ctrl_c")
            self.trace.log("ctrl_c", k=k)
            raise KeyboardInterrupt()

    def _fs_seam(self, kind, rel, **kw):
        self._seam_event("fs:" + kind, rel)
        if self.io_fault is not None and self.in_invocation and not getattr(self, "pool_running", False) \
                and self.io_fault[0] == self.seam_count:
            err = self.io_fault[1]
            self.io_fault = None
            self.fault("io_error")
            raise OSError(err, os.strerror(err), rel)
        # kill 'after' for file events is equivalent to 'before' of the next one

    def _cmd_seam(self, exe, args, stdin):
        self._seam_event("cmd:" + exe, exe)

    def _cmd_after(self, exe):
        if self.in_invocation and self.kill_at is not None and self.kill_at == (self.seam_count, "after"):
            self.frozen = True
            self.fault("kill_after_cmd")
            self.trace.log("killed", k=self.seam_count, when="after", exe=exe)
            raise SimKill()

    # ------------------------------------------------------------------ gwf invocations
    def cwd_for(self, mode):
        if mode == "sub":
            return self.path("d"), []
        if mode == "elsewhere":
            return os.path.join(self.base, "elsewhere"), ["-f", self.path("workflow.py")]
        return self.proj, []

    def nested_gwf(self, argv, readonly=True):
        """Another gwf process (a second terminal) runs from start to end while the current invocation is
        between two of its steps.  Everything that belongs to one invocation is saved and restored."""
        keep = ("seam_count", "seam_log", "kill_at", "intr_at", "io_fault", "frozen", "accepted_now", "in_invocation",
                "between_seams", "nested_at", "submit_seams", "last_gwf_faulted", "last_run_seams")
        saved = {k: getattr(self, k) for k in keep}
        inc = getattr(self.fs, "incarnation", 0)
        csaved = (dict(self.cluster.cmd_count), list(self.cluster.cmd_log), list(self.cluster.faults)) if self.cluster else None
        lsaved = (self.local.n_readline, dict(self.local.reply_faults)) if self.local is not None else None
        self.between_seams = None
        self.nested_at = None
        self.nest_depth += 1
        self.probe("nested_invocations")
        self.trace.log("nested_begin", argv=list(argv))
        try:
            res = self.gwf(argv, "root")
        finally:
            self.nest_depth -= 1
            for k, v in saved.items():
                setattr(self, k, v)
            self.fs.incarnation = inc  # the outer process lives on; the nested one's descriptors are dead
            if csaved:
                self.cluster.cmd_count, self.cluster.cmd_log, self.cluster.faults = csaved
            if lsaved:
                self.local.n_readline, self.local.reply_faults = lsaved
        self.trace.log("nested_end", exit=res.exit_code, accepted=res.accepted)
        if readonly and (res.accepted or res.cancel_requests):
            self.flag("C05", "preview_touched_scheduler", f"gwf {' '.join(argv)} (second terminal) submitted {res.accepted} "
                      f"/ cancelled {res.cancel_requests}")
        if res.exception is not None or res.exit_code != 0:
            for p in sorted(self.props):
                self.flag(p, "command_failed", f"gwf {' '.join(argv)} in a second terminal, during a run: exit {res.exit_code} "
                          f"{type(res.exception).__name__ if res.exception else ''}", command=argv[0])
        return res

    def gwf(self, argv, cwd_mode="root", stdin=None, kill_at=None, intr_at=None, io_fault=None, cmd_faults=()):
        cwd, pre = self.cwd_for(cwd_mode)
        if self.knobs.get("verbose_flag") and "-v" not in argv and self.backend != "multi":
            pre = pre + ["-v", self.knobs["verbose_flag"]]
        self.seam_count = 0
        self.seam_log = []
        # file objects of earlier invocations are dead: every invocation gets an id of its own
        self.fs.inc_counter = getattr(self.fs, "inc_counter", 0) + 1
        self.fs.incarnation = self.fs.inc_counter
        self.kill_at = tuple(kill_at) if kill_at else None
        self.intr_at = intr_at
        self.io_fault = tuple(io_fault) if io_fault else None
        self.frozen = False
        self.accepted_now = []
        n_jobs_before = len(self.cluster.order) if self.cluster else 0
        journal_before = len(self.cluster.journal) if self.cluster else 0
        if self.cluster:
            self.cluster.cmd_count = {}
            self.cluster.cmd_log = []
            self.cluster.faults = [Fault(*f) for f in cmd_faults]
        if self.local is not None:
            self.local.n_readline = 0
            self.local.reply_faults = {k: kind for exe, k, kind in cmd_faults if exe == "sock"}
        self.in_invocation = True
        if self.nest_depth == 0:
            self.submit_seams = 0
        try:
            res = invoke(pre + list(argv), cwd, input=stdin)
        finally:
            self.in_invocation = False
            self.kill_at = self.intr_at = self.io_fault = None
            if self.nest_depth == 0:
                self.nested_at = None
        self.n_invocations += 1
        if self.local is not None:
            self.local.pump()
        res.seams = self.seam_count
        res.faulted = bool(kill_at or intr_at or io_fault or cmd_faults)
        self.last_gwf_faulted = res.faulted
        # jobs accepted from this invocation (ground truth, whatever gwf saw of them)
        res.accepted = list(self.accepted_now)
        self.history_accepted.extend(res.accepted)
        if argv and argv[0] == "run" and not res.faulted and res.seams:
            self.last_run_seams = res.seams
        res.cancel_requests = []
        res.cmd_log = []
        if self.cluster:
            res.accepted = list(self.accepted_now)
            for seq, what, jid, name in self.cluster.journal[journal_before:]:
                if what == "cancel":
                    res.cancel_requests.append(jid)
                    self.cancel_requested_ids.add(jid)
            res.cmd_log = list(self.cluster.cmd_log)
            if self.backend == "slurm" and not self.knobs.get("accounting", True):
                self.probe("invocations_with_accounting_disabled")
                if any(e == "sacct" for e, a, rc in res.cmd_log):
                    self.flag("C08", "accounting_consulted_although_disabled",
                              f"gwf {' '.join(argv)} called sacct with backend.slurm.accounting_enabled=false")
            if res.killed and self.kill_at is None and res.accepted:
                pass
        self.trace.log("gwf", argv=list(argv), cwd=cwd_mode, exit=res.exit_code, killed=res.killed,
                       exc=type(res.exception).__name__ if res.exception else None,
                       accepted=res.accepted, cancels=res.cancel_requests)
        if res.exception is not None and not res.faulted:
            for p in sorted(self.props):
                self.flag(p, "unexpected_crash", f"gwf {' '.join(argv)} raised {type(res.exception).__name__}: {res.exception}",
                          command=argv[0] if argv else "", exc=type(res.exception).__name__)
        return res

    def _note_accepted(self, j):
        """Called at the instant the scheduler accepts a submission (ground truth M_truth)."""
        if not getattr(j, "from_gwf", True) or getattr(j, "foreign", False):
            return
        t = self.model.targets.get(j.name)
        outs = list(t.outputs) if t is not None else []
        # jobs that are producing this target's inputs right now (C07): latest jobs of the direct
        # dependencies that are still pending or running
        producers = []
        if t is not None:
            for d in self.model.deps(j.name):
                pj = self.jref(d)
                same_run = any(a[0] == d for a in self.accepted_now)
                if pj is not None and (same_run or self.job_phase(pj) in ("pending", "running")):
                    producers.append(pj)
                if self.cluster is not None:
                    # every other job of that dependency that is still pending or running was producing this
                    # target's input as well - unless gwf cannot know it (its id was lost with a killed
                    # invocation) or the scheduler shows it in a state the statement does not pin down
                    for oj in self.cluster.jobs.values():
                        if oj.name == d and not oj.foreign and oj.id != pj and oj.phase != "done" \
                                and oj.id not in self.orphan_ids and not oj.was_unpinned and oj.id not in producers:
                            producers.append(oj.id)
                            self.probe("older_live_producer_jobs")
            if self.cluster is not None:
                # the statement's first sentence, at the instant of acceptance and whatever else happens to this
                # invocation: the scheduler was told to wait for every one of those jobs
                told = {str(x) for x in j.deps}
                missing = [pj for pj in producers if str(pj) not in told]
                if missing:
                    self.flag("C07", "live_producer_not_awaited",
                              f"job {j.id} ({j.name}) was submitted with prerequisites {sorted(told)} but the jobs {missing} "
                              f"of its direct dependencies are pending or running (or were submitted in this run)")
        self.job_model[j.id] = dict(outputs=outs, name=j.name, producers=producers,
                                    spec=t.spec() if t is not None else "", wd=t.wd if t is not None else "")
        self.latest[j.name] = j.id
        self.k3_lost.discard(j.name)
        if self.local is not None:
            self.latest_gen[j.name] = self.local.generation
            self.accepted_gen[(j.name, j.id)] = self.local.generation
        self.accepted_now.append((j.name, j.id, list(j.deps)))
        if self.knobs.get("instant_start") and self.cluster is not None and self.cluster.dep_state(j) == "ok":
            # an idle cluster: the job starts before the submission command has even returned
            self.probe("instant_starts")
            self.cluster.start(j)

    def jref(self, name):
        """Reference to the latest job of a target: the id, or (pool generation, id) for the local pool
        (a restarted pool issues the same ids again)."""
        jid = self.latest.get(name)
        if jid is None:
            return None
        if self.local is not None:
            return (self.latest_gen.get(name, self.local.generation), jid)
        return jid

    def job_phase(self, ref):
        if self.cluster is not None:
            j = self.cluster.jobs.get(ref)
            return j.phase if j is not None else None
        if self.local is None:
            return None
        if not isinstance(ref, tuple):
            ref = (self.local.generation, ref)
        return self.local.phase(ref)

    def job_result(self, ref):
        if self.cluster is not None:
            j = self.cluster.jobs.get(ref)
            return j.result if j is not None else None
        if self.local is None:
            return None
        if not isinstance(ref, tuple):
            ref = (self.local.generation, ref)
        return self.local.result(ref)

    def _note_start(self, j):
        """C07 invariant at every job start: every job that was producing the target's inputs when it
        was submitted has finished - successfully on Slurm, LSF and the local pool."""
        info = self.job_model.get(j.id)
        if self.on_job_start_extra is not None:
            self.on_job_start_extra(j)
        if info is None:
            return
        self.probe("job_starts_checked")
        for pj in info["producers"]:
            self.probe("job_starts_with_producers")
            ph = self.job_phase(pj)
            if ph != "done":
                self.flag("C07", "started_before_producer_finished",
                          f"job {j.id} ({info['name']}) starts while job {pj}, which was producing its input when it was "
                          f"submitted, is {ph}")
            elif self.backend != "sge" and self.job_result(pj) != "ok":
                self.flag("C07", "started_after_producer_failed",
                          f"job {j.id} ({info['name']}) starts although job {pj} producing its input ended "
                          f"{self.job_result(pj)}")

    # ------------------------------------------------------------------ reference models
    def stat_ns(self, rel):
        try:
            return os.stat(self.path(rel)).st_mtime_ns
        except FileNotFoundError:
            return None

    def m_stale(self, name):
        """C01's sentence, literally."""
        t = self.model.targets[name]
        if self.hashing and self.m_hash.get(name) != t.spec_sha1():
            return True, "spec"
        outs = set(t.outputs)
        if not outs:
            return True, "no_outputs"
        out_ts = []
        for o in outs:
            ns = self.stat_ns(o)
            if ns is None:
                return True, "missing_output"
            out_ts.append(ns)
        in_ts = [self.stat_ns(i) for i in set(t.inputs)]
        in_ts = [x for x in in_ts if x is not None]
        if in_ts and max(in_ts) > min(out_ts):
            return True, "input_newer"
        if in_ts and max(in_ts) == min(out_ts):
            self.probe("exact_tie_decisions")
        if in_ts and len(out_ts) > 1 and min(out_ts) < max(in_ts) <= max(out_ts):
            self.probe("input_between_outputs")
        return False, "up_to_date"

    def observable(self, name):
        jid = self.latest.get(name)
        if jid is None:
            return "none"
        if self.cluster is not None:
            return self.cluster.observable(jid)
        return self.local.observable(self.jref(name))

    def m_status(self):
        """name -> status string, or None where the statement does not pin it (unpinned codes)."""
        st = {}
        for n in self.model.topo():
            deps = self.model.deps(n)
            if any(st[d] is None for d in deps):
                dep_unknown = True
            else:
                dep_unknown = False
            incomplete = [d for d in deps if st[d] != "completed"]
            obs = self.observable(n)
            if obs == "unpinned":
                st[n] = None
            elif obs == "live":
                st[n] = "live"  # submitted or running, either is right
            elif obs in ("submitted", "running", "failed", "cancelled"):
                st[n] = obs
            elif dep_unknown:
                st[n] = None
            elif incomplete:
                st[n] = "shouldrun"
            else:
                stale, why = self.m_stale(n)
                st[n] = "shouldrun" if stale else "completed"
        return st

    def select(self, patterns):
        if not patterns:
            return self.model.endpoints()
        names = list(self.model.targets)
        out = set()
        for p in patterns:
            out.update(fnmatch.filter(names, p))
        return sorted(out)

    def m_plan(self, patterns, status=None):
        """(ordered list of names to submit in gwf's deterministic order is not required; returns
        dict name -> list of prerequisite target names) for the selection."""
        st = status or self.m_status()
        cone = self.model.cone(self.select(patterns))
        plan = {}
        for n in self.model.topo():
            if n not in cone:
                continue
            if st[n] in ("failed", "cancelled", "shouldrun"):
                plan[n] = [d for d in self.model.deps(n) if st[d] != "completed"]
        return plan

    # ------------------------------------------------------------------ parsing gwf output
    @staticmethod
    def parse_status_table(output):
        rows = {}
        for ln in output.splitlines():
            parts = ln.split()
            if len(parts) == 3 and parts[2] in ("shouldrun", "submitted", "running", "completed", "failed", "cancelled"):
                rows[parts[1]] = parts[2]
        return rows

    @staticmethod
    def parse_would_submit(output):
        return [ln.split("Would submit ", 1)[1].strip() for ln in output.splitlines() if "Would submit " in ln]

    def read_tracked(self):
        """The recorded job ids: the state file with the journal of unsaved submissions folded in."""
        p = self.path(f".gwf/{self.backend}-backend-tracked.json")
        try:
            with fsx._real_open(p) as f:
                tracked = json.load(f)
        except FileNotFoundError:
            tracked = {}
        except ValueError:
            return {"__unreadable__": True}
        try:
            with fsx._real_open(p + ".journal") as f:
                for line in f:
                    try:
                        name, jid = json.loads(line)
                    except ValueError:
                        break
                    if isinstance(tracked, dict):
                        tracked[name] = jid
        except FileNotFoundError:
            pass
        return tracked

    def read_hashes(self):
        p = self.path(".gwf/spec-hashes.json")
        try:
            with fsx._real_open(p) as f:
                return json.load(f)
        except FileNotFoundError:
            return None
        except ValueError:
            return "__unreadable__"

    # ------------------------------------------------------------------ oracle applications
    def check_status(self, res, props_rows=("C01", "C08"), expected=None):
        """Compare a full `gwf status` table with M_status."""
        if res.exit_code != 0:
            return None
        rows = self.parse_status_table(res.stdout or res.output)
        exp = expected or self.m_status()
        if set(rows) != set(exp):
            for p in props_rows:
                self.flag(p, "status_rows", f"status shows {sorted(rows)} expected {sorted(exp)}")
            return rows
        for n in self.model.topo():
            want = exp[n]
            if want is None:
                self.probe("unpinned_rows")
                continue
            got = rows[n]
            if want == "live":
                self.probe("live_either_rows")
                if got not in ("submitted", "running"):
                    j = self.job_of(n)
                    self.flag("C08", "live_job_not_reported_live",
                              f"target {n}: job {self.latest.get(n)} is alive with scheduler state "
                              f"{j.code if j else '?'} but gwf says {got}", code=j.code if j else "?", got=got)
                continue
            obs = self.observable(n)
            deps_done = all(exp[d] == "completed" for d in self.model.deps(n))
            if obs in ("success", "none") and deps_done:
                self.probe("file_based_decisions")
                if got != want:
                    stale, why = self.m_stale(n)
                    self.flag("C01", "staleness_decision",
                              f"target {n}: gwf says {got}, specification says {want} ({why})", reason=why, got=got)
            if obs in ("submitted", "running", "failed", "cancelled"):
                self.probe("backend_state_rows")
            if obs in ("success", "none"):
                # C08 only demands the fall-back to a file-based decision here; which one is C01's business
                if got not in ("shouldrun", "completed"):
                    self.flag("C08", "status_mismatch",
                              f"target {n}: gwf says {got}; scheduler view of job {self.latest.get(n)} is {obs} "
                              f"=> file-based decision expected", observable=obs, got=got)
            elif got != want:
                self.flag("C08", "status_mismatch",
                          f"target {n}: gwf says {got}; scheduler view of job {self.latest.get(n)} is {obs} => {want}",
                          observable=obs, got=got)
            if got != want:
                self.flag("C06", "status_mismatch", f"target {n}: gwf says {got}, expected {want}")
                self.flag("C14", "healthy_client_wrong_view", f"target {n}: gwf says {got}, the pool's table implies {want}")
                self.flag("C16", "status_mismatch", f"target {n}: gwf says {got}, expected {want}")
                self.flag("C18", "status_mismatch", f"target {n}: gwf says {got}, expected {want}")
        self.states_seen.add(tuple(sorted(rows.items())))
        return rows

    def check_tracked_file(self, props=("C08",)):
        tracked = self.read_tracked()
        for name, jid in self.latest.items():
            if name in self.k3_lost:
                continue
            got = tracked.get(name)
            want = jid if self.backend != "local" else jid
            if got != want:
                for p in props:
                    self.flag(p, "tracked_id_mismatch",
                              f"tracked-jobs file maps {name} to {got!r}; the scheduler returned {want!r}")

    def check_plan(self, res, patterns, pre_status, pre_latest, props=("C02",)):
        """Compare the submissions received by the scheduler during `gwf run` with M_plan."""
        plan = self.m_plan(patterns, pre_status)
        got_names = [a[0] for a in res.accepted]
        if any(v is None or v == "live" for v in pre_status.values()):
            return
        self.probe("plan_checks")
        if plan:
            self.probe("plan_checks_nonempty")
        if any(v in ("submitted", "running", "failed", "cancelled") for v in pre_status.values()):
            self.probe("plan_checks_with_backend_states")
        if sorted(got_names) != sorted(plan):
            dup = sorted({n for n in got_names if got_names.count(n) > 1})
            extra = sorted(set(got_names) - set(plan))
            missing = sorted(set(plan) - set(got_names))
            for p in props:
                self.flag(p, "submission_set",
                          f"run {patterns}: submitted {got_names}, plan {sorted(plan)} (missing {missing}, extra {extra}, twice {dup}); "
                          f"pre-status {pre_status}", missing=bool(missing), extra=bool(extra), twice=bool(dup))
            return
        assigned = {}
        for name, jid, deps in res.accepted:
            want = []
            ok_order = True
            for d in plan[name]:
                if d in plan:
                    if d not in assigned:
                        ok_order = False
                    want.append(assigned.get(d))
                else:
                    want.append(pre_latest.get(d))
            if not ok_order:
                for p in props:
                    self.flag(p, "submitted_before_prerequisite", f"{name} submitted before one of {plan[name]}")
            elif sorted(map(str, deps)) != sorted(map(str, want)):
                for p in props:
                    self.flag(p, "prerequisite_ids",
                              f"{name} submitted with prerequisites {deps}; plan says {plan[name]} = {want}")
                self.flag("C07", "prerequisite_ids",
                          f"{name} submitted with prerequisites {deps}; plan says {plan[name]} = {want}")
            assigned[name] = jid
            if plan[name]:
                self.probe("submissions_with_prerequisites")
            if any(d not in plan for d in plan[name]):
                self.probe("prerequisite_from_earlier_invocation")

    def update_hash_model(self, res, dry_run):
        if not self.hashing or dry_run:
            return
        for name, jid, deps in res.accepted:
            t = self.model.targets.get(name)
            if t is not None:
                self.m_hash[name] = t.spec_sha1()

    # ------------------------------------------------------------------ scheduler / world ops
    def job_of(self, name):
        jid = self.latest.get(name)
        return self.cluster.jobs.get(jid) if (jid and self.cluster) else None

    def run_job_effects(self, j, how, skew=0.0, partial=False):
        """What a job leaves behind: its declared outputs (on success) and its log files."""
        info = self.job_model.get(j.id, {})
        outs = info.get("outputs", [])
        if how == "ok" or partial:
            use = outs if how == "ok" else outs[: max(0, len(outs) - 1)]
            for o in use:
                self.fs.world_write(self.path(o), f"{j.name} job {j.id}\n".encode(), skew)
                if self.knobs.get("tick_per_op"):
                    self.clock.advance(self.knobs["tick_per_op"] * self.clock.TICK)
        logdir = self.path(".gwf/logs")
        if self.local is not None:
            return  # the pool writes the logs itself
        if os.path.isdir(logdir) and self.knobs.get("log_mode", "full") != "none":
            self.fs.world_write(os.path.join(logdir, j.name + ".stdout"), f"out of {j.id}\n".encode())
            if self.knobs.get("log_mode", "full") == "full":
                self.fs.world_write(os.path.join(logdir, j.name + ".stderr"), f"err of {j.id}\n".encode())

    def snapshot(self):
        """Content+mtime of every file of the project except the parsed-state files."""
        snap = {}
        for root, dirs, files in os.walk(self.proj):
            for fn in files:
                p = os.path.join(root, fn)
                rel = p[len(self.proj) + 1:]
                if rel.startswith(".gwf/") and rel.endswith(".json.tmp"):
                    continue  # left behind by an invocation killed inside an atomic state-file write: nobody's data
                if os.path.islink(p):
                    snap[rel] = ("link", os.readlink(p).replace(self.base, "$BASE"))
                    continue
                st = os.stat(p)
                with fsx._real_open(p, "rb") as f:
                    data = f.read()
                if rel.startswith(".gwf/") and rel.endswith(".json"):
                    try:
                        snap[rel] = ("json", json.loads(data.decode() or "null"))
                    except ValueError:
                        snap[rel] = ("raw", data)
                else:
                    snap[rel] = (st.st_mtime_ns, data)
        # the recorded job ids are the state file together with the journal of an invocation that was killed
        # before it could save: fold the journal in, so that consolidating it is no semantic change
        for rel in sorted(snap):
            if rel.startswith(".gwf/") and rel.endswith(".json.journal"):
                base = rel[:-len(".journal")]
                data = snap.pop(rel)[1]
                cur = snap.get(base)
                merged = dict(cur[1]) if cur and cur[0] == "json" and isinstance(cur[1], dict) else {}
                for line in data.decode("utf-8", "replace").splitlines():
                    try:
                        name, jid = json.loads(line)
                    except ValueError:
                        break
                    merged[name] = jid
                snap[base] = ("json", merged)
        return snap
